package emit

import (
	"go/types"
	"sort"
	"strings"

	"golang.org/x/tools/go/ssa"

	"sbpfcheck/origin"
)

// appendOperands: st.Val = append(<load of the same cell>, X...) -> X
func appendOperands(st *ssa.Store) (ssa.Value, bool) {
	c, ok := st.Val.(*ssa.Call)
	if !ok || !isBuiltin(c, "append") || len(c.Call.Args) != 2 {
		return nil, false
	}
	ld, ok := c.Call.Args[0].(*ssa.UnOp)
	if !ok {
		return nil, false
	}
	if !sameAddr(ld.X, st.Addr) {
		return nil, false
	}
	return c.Call.Args[1], true
}

func sameAddr(a, b ssa.Value) bool {
	if a == b {
		return true
	}
	fa, ok1 := a.(*ssa.FieldAddr)
	fb, ok2 := b.(*ssa.FieldAddr)
	return ok1 && ok2 && fa.Field == fb.Field && sameAddr(fa.X, fb.X)
}

// elementsOf returns the values stored into the elements of a fresh array that is sliced whole.
func elementsOf(v ssa.Value) ([]ssa.Value, bool) {
	sl, ok := v.(*ssa.Slice)
	if !ok || sl.Low != nil || sl.High != nil {
		return nil, false
	}
	al, ok := sl.X.(*ssa.Alloc)
	if !ok {
		return nil, false
	}
	at, ok := al.Type().Underlying().(*types.Pointer).Elem().Underlying().(*types.Array)
	if !ok {
		return nil, false
	}
	out := make([]ssa.Value, at.Len())
	for _, ref := range *al.Referrers() {
		ia, ok := ref.(*ssa.IndexAddr)
		if !ok {
			continue
		}
		idx, ok := constInt(ia.Index)
		if !ok || idx < 0 || idx >= at.Len() {
			return nil, false
		}
		for _, r2 := range *ia.Referrers() {
			if st, ok := r2.(*ssa.Store); ok && st.Addr == ia {
				if out[idx] != nil {
					return nil, false
				}
				out[idx] = st.Val
			}
		}
	}
	for _, o := range out {
		if o == nil {
			return nil, false
		}
	}
	return out, true
}

// literalOf describes an instruction value (make Instruction <- T (load of complit)).
func (b *Builder) literalOf(v ssa.Value, s state) *Literal {
	// an instruction handed to a helper (`p.emit(bpf.JumpIf{...})`): the literal is the caller's argument
	for i := 0; i < 6; i++ {
		prm, ok := v.(*ssa.Parameter)
		if !ok || s.fr == nil || s.fr.call == nil {
			break
		}
		idx := -1
		for k, q := range s.fr.fn.Params {
			if q == prm {
				idx = k
			}
		}
		if idx < 0 || idx >= len(s.fr.call.Call.Args) {
			break
		}
		v = s.fr.call.Call.Args[idx]
		s = state{fr: s.fr.parent, blk: s.blk, idx: s.idx, env: s.env}
	}
	res := b.resolver(s.fr, s.env)
	lit := &Literal{Fields: map[string]*origin.O{}, Fn: s.fr.fn, Pos: v.Pos()}
	if mi, ok := v.(*ssa.MakeInterface); ok {
		v = mi.X
		if !lit.Pos.IsValid() {
			lit.Pos = mi.Pos()
		}
	}
	// the instruction was built by a helper that the walker went through on this path
	if c, ok := v.(*ssa.Call); ok && s.fr != nil {
		if o, ok := s.env.rets[s.fr.id+"/"+c.Name()]; ok && strings.HasPrefix(o.Name, "literal:") {
			if l := b.lits[o.Name]; l != nil {
				return l
			}
		}
		// outside the walker (policy-level evaluation): the helper's single return, with its parameters bound to this
		// call's arguments; a value that depends on a branch of the helper is the join of its alternatives
		if cal := c.Call.StaticCallee(); cal != nil && isBPFStruct(c.Type()) && b.valueHelper(cal) {
			var rets []*ssa.Return
			for _, blk := range cal.Blocks {
				if r, ok := blk.Instrs[len(blk.Instrs)-1].(*ssa.Return); ok {
					rets = append(rets, r)
				}
			}
			if len(rets) == 1 && len(rets[0].Results) == 1 {
				nf := b.frameFor(s.fr, c, cal, s.env)
				return b.literalOf(rets[0].Results[0], state{fr: nf, blk: rets[0].Block(), env: s.env})
			}
		}
	}
	t := v.Type()
	if n, ok := t.(*types.Named); ok {
		lit.Type = n.Obj().Name()
		if n.Obj().Pkg() != nil && n.Obj().Pkg().Path() != "golang.org/x/net/bpf" {
			lit.Type = n.Obj().Pkg().Name() + "." + lit.Type
		}
	} else {
		lit.Type = t.String()
	}
	st, isStruct := t.Underlying().(*types.Struct)
	ld, ok := v.(*ssa.UnOp)
	var al *ssa.Alloc
	if ok {
		al, _ = ld.X.(*ssa.Alloc)
	}
	if al == nil || !isStruct {
		lit.Fields["<opaque>"] = res.Of(v, s.fr.of, nil)
		return lit
	}
	if !lit.Pos.IsValid() {
		lit.Pos = al.Pos()
	}
	// zero default for every field, then the stores
	for i := 0; i < st.NumFields(); i++ {
		lit.Fields[st.Field(i).Name()] = &origin.O{Kind: origin.KConst, Type: st.Field(i).Type()}
	}
	for _, ref := range *al.Referrers() {
		fa, ok := ref.(*ssa.FieldAddr)
		if !ok {
			continue
		}
		for _, r2 := range *fa.Referrers() {
			if stt, ok := r2.(*ssa.Store); ok && stt.Addr == fa {
				lit.Fields[st.Field(fa.Field).Name()] = res.Of(stt.Val, s.fr.of, stt)
			}
		}
	}
	return lit
}

// signature identifies a literal by type and field origins.
func (l *Literal) signature() string {
	var parts []string
	for k, v := range l.Fields {
		parts = append(parts, k+"="+v.String())
	}
	sort.Strings(parts)
	return l.Type + "{" + strings.Join(parts, ",") + "}"
}

// literals: the instruction literals appended by a store to the instruction list.
func (b *Builder) literals(st *ssa.Store, s state) ([]*Literal, bool) {
	x, ok := appendOperands(st)
	if !ok {
		return nil, false
	}
	vals, ok := elementsOf(x)
	if !ok {
		return nil, false
	}
	var out []*Literal
	for _, v := range vals {
		out = append(out, b.literalOf(v, s))
	}
	return out, true
}

// positionLag: v is "the current end of the instruction list" (Index(len(p.instructions)), directly or through a
// method of the builder that returns just that), evaluated in the block of `at`; the result is the number of
// instructions appended to the list between that evaluation and `at` (0: v names the next instruction to be emitted).
func (b *Builder) positionLag(v ssa.Value, at ssa.Instruction) (int, bool) {
	for {
		switch x := v.(type) {
		case *ssa.Convert:
			v = x.X
			continue
		case *ssa.ChangeType:
			v = x.X
			continue
		}
		break
	}
	c, ok := v.(*ssa.Call)
	if !ok || c.Block() != at.Block() {
		return 0, false
	}
	var evalAt ssa.Instruction = c
	if isBuiltin(c, "len") {
		ld, ok := c.Call.Args[0].(*ssa.UnOp)
		if !ok || ld.Block() != at.Block() {
			return 0, false
		}
		if _, path, ok := recvPath(ld.X, b.progType); !ok || path != ".instructions" {
			return 0, false
		}
		evalAt = ld
	} else if cal := c.Call.StaticCallee(); cal == nil || !b.isCurIndexFn(cal) {
		return 0, false
	}
	lag, seen := 0, false
	for _, in := range at.Block().Instrs {
		if in == evalAt {
			seen = true
			continue
		}
		if in == at {
			if !seen {
				return 0, false
			}
			return lag, true
		}
		if !seen {
			continue
		}
		switch y := in.(type) {
		case *ssa.Store:
			if _, path, ok := recvPath(y.Addr, b.progType); ok && path == ".instructions" {
				lag++
			}
		case *ssa.Call:
			if cal := y.Call.StaticCallee(); cal != nil && (b.emitters[cal] || b.patcher[cal]) {
				return 0, false // an emitter call in between: position unknown
			}
		}
	}
	return 0, false
}

// isCurIndexFn: a method of the builder whose only effect is to return Index(len(p.instructions)).
func (b *Builder) isCurIndexFn(f *ssa.Function) bool {
	if !b.isBuilderMethod(f) || len(f.Blocks) != 1 || len(f.Params) != 1 {
		return false
	}
	for _, in := range f.Blocks[0].Instrs {
		switch x := in.(type) {
		case *ssa.Return:
			if len(x.Results) != 1 {
				return false
			}
			v := x.Results[0]
			if cv, ok := v.(*ssa.Convert); ok {
				v = cv.X
			} else if ct, ok := v.(*ssa.ChangeType); ok {
				v = ct.X
			}
			c, ok := v.(*ssa.Call)
			if !ok || !isBuiltin(c, "len") {
				return false
			}
			ld, ok := c.Call.Args[0].(*ssa.UnOp)
			if !ok {
				return false
			}
			base, path, ok := recvPath(ld.X, b.progType)
			return ok && path == ".instructions" && base == ssa.Value(f.Params[0])
		case *ssa.Store, *ssa.MapUpdate, *ssa.Go, *ssa.Defer:
			return false
		case *ssa.Call:
			if !isBuiltin(x, "len") {
				return false
			}
		}
	}
	return false
}

// jumpRecord: the labels of the JumpIf record appended by a store to the jump list, and how many instructions were
// appended between the evaluation of the record's index and the store (0: the record names the next emission, 1: the
// one just made).
func (b *Builder) jumpRecord(st *ssa.Store, s state) (lt, lf *LabelVal, lag int, ok bool) {
	lt, lf, idx, ok := b.jumpRecord0(st, s)
	if !ok {
		return nil, nil, 0, false
	}
	lag, okl := b.positionLag(idx, st)
	if !okl || lag > 1 {
		b.problem("%s: the index of a jump record is not the end of the instruction list evaluated directly before (or one emission before) the record is stored", s.fr.fn.Name())
		lag = 0
	}
	return lt, lf, lag, true
}

func (b *Builder) jumpRecord0(st *ssa.Store, s state) (lt, lf *LabelVal, idx ssa.Value, ok bool) {
	x, okx := appendOperands(st)
	if !okx {
		return nil, nil, nil, false
	}
	vals, okv := elementsOf(x)
	if !okv || len(vals) != 1 {
		return nil, nil, nil, false
	}
	ld, okl := vals[0].(*ssa.UnOp)
	if !okl {
		return nil, nil, nil, false
	}
	al, oka := ld.X.(*ssa.Alloc)
	if !oka {
		return nil, nil, nil, false
	}
	stt, oks := al.Type().Underlying().(*types.Pointer).Elem().Underlying().(*types.Struct)
	if !oks {
		return nil, nil, nil, false
	}
	found := 0
	for _, ref := range *al.Referrers() {
		fa, ok := ref.(*ssa.FieldAddr)
		if !ok {
			continue
		}
		name := stt.Field(fa.Field).Name()
		for _, r2 := range *fa.Referrers() {
			s2, ok := r2.(*ssa.Store)
			if !ok || s2.Addr != fa {
				continue
			}
			switch name {
			case "trueLabel":
				lt = b.labelOf(s2.Val, s.fr, s.env, 0)
				found++
			case "falseLabel":
				lf = b.labelOf(s2.Val, s.fr, s.env, 0)
				found++
			case "index":
				idx = s2.Val
			}
		}
	}
	if found != 2 || idx == nil {
		return nil, nil, nil, false
	}
	if lt == nil || lf == nil {
		b.problem("%s: a jump refers to a label that cannot be resolved to a NewLabel call", s.fr.fn.Name())
	}
	return lt, lf, idx, true
}
