package emit

import (
	"go/types"

	"golang.org/x/tools/go/ssa"

	"sbpfcheck/origin"
)

// appendOperands: st.Val = append(<load of the same cell>, X...) -> X
func appendOperands(st *ssa.Store) (ssa.Value, bool) {
	c, ok := st.Val.(*ssa.Call)
	if !ok || !isBuiltin(c, "append") || len(c.Call.Args) != 2 {
		return nil, false
	}
	ld, ok := c.Call.Args[0].(*ssa.UnOp)
	if !ok {
		return nil, false
	}
	if !sameAddr(ld.X, st.Addr) {
		return nil, false
	}
	return c.Call.Args[1], true
}

func sameAddr(a, b ssa.Value) bool {
	if a == b {
		return true
	}
	fa, ok1 := a.(*ssa.FieldAddr)
	fb, ok2 := b.(*ssa.FieldAddr)
	return ok1 && ok2 && fa.Field == fb.Field && sameAddr(fa.X, fb.X)
}

// elementsOf returns the values stored into the elements of a fresh array that is sliced whole.
func elementsOf(v ssa.Value) ([]ssa.Value, bool) {
	sl, ok := v.(*ssa.Slice)
	if !ok || sl.Low != nil || sl.High != nil {
		return nil, false
	}
	al, ok := sl.X.(*ssa.Alloc)
	if !ok {
		return nil, false
	}
	at, ok := al.Type().Underlying().(*types.Pointer).Elem().Underlying().(*types.Array)
	if !ok {
		return nil, false
	}
	out := make([]ssa.Value, at.Len())
	for _, ref := range *al.Referrers() {
		ia, ok := ref.(*ssa.IndexAddr)
		if !ok {
			continue
		}
		idx, ok := constInt(ia.Index)
		if !ok || idx < 0 || idx >= at.Len() {
			return nil, false
		}
		for _, r2 := range *ia.Referrers() {
			if st, ok := r2.(*ssa.Store); ok && st.Addr == ia {
				if out[idx] != nil {
					return nil, false
				}
				out[idx] = st.Val
			}
		}
	}
	for _, o := range out {
		if o == nil {
			return nil, false
		}
	}
	return out, true
}

// literalOf describes an instruction value (make Instruction <- T (load of complit)).
func (b *Builder) literalOf(v ssa.Value, s state) *Literal {
	res := b.resolver(s.fr, s.env)
	lit := &Literal{Fields: map[string]*origin.O{}, Fn: s.fr.fn, Pos: v.Pos()}
	if mi, ok := v.(*ssa.MakeInterface); ok {
		v = mi.X
		if !lit.Pos.IsValid() {
			lit.Pos = mi.Pos()
		}
	}
	t := v.Type()
	if n, ok := t.(*types.Named); ok {
		lit.Type = n.Obj().Name()
		if n.Obj().Pkg() != nil && n.Obj().Pkg().Path() != "golang.org/x/net/bpf" {
			lit.Type = n.Obj().Pkg().Name() + "." + lit.Type
		}
	} else {
		lit.Type = t.String()
	}
	st, isStruct := t.Underlying().(*types.Struct)
	ld, ok := v.(*ssa.UnOp)
	var al *ssa.Alloc
	if ok {
		al, _ = ld.X.(*ssa.Alloc)
	}
	if al == nil || !isStruct {
		lit.Fields["<opaque>"] = res.Of(v, s.fr.of, nil)
		return lit
	}
	if !lit.Pos.IsValid() {
		lit.Pos = al.Pos()
	}
	// zero default for every field, then the stores
	for i := 0; i < st.NumFields(); i++ {
		lit.Fields[st.Field(i).Name()] = &origin.O{Kind: origin.KConst, Type: st.Field(i).Type()}
	}
	for _, ref := range *al.Referrers() {
		fa, ok := ref.(*ssa.FieldAddr)
		if !ok {
			continue
		}
		for _, r2 := range *fa.Referrers() {
			if stt, ok := r2.(*ssa.Store); ok && stt.Addr == fa {
				lit.Fields[st.Field(fa.Field).Name()] = res.Of(stt.Val, s.fr.of, stt)
			}
		}
	}
	return lit
}

// literals: the instruction literals appended by a store to the instruction list.
func (b *Builder) literals(st *ssa.Store, s state) ([]*Literal, bool) {
	x, ok := appendOperands(st)
	if !ok {
		return nil, false
	}
	vals, ok := elementsOf(x)
	if !ok {
		return nil, false
	}
	var out []*Literal
	for _, v := range vals {
		out = append(out, b.literalOf(v, s))
	}
	return out, true
}

// jumpRecord: the labels of the JumpIf record appended by a store to the jump list.
func (b *Builder) jumpRecord(st *ssa.Store, s state) (lt, lf *LabelVal, ok bool) {
	x, okx := appendOperands(st)
	if !okx {
		return nil, nil, false
	}
	vals, okv := elementsOf(x)
	if !okv || len(vals) != 1 {
		return nil, nil, false
	}
	ld, okl := vals[0].(*ssa.UnOp)
	if !okl {
		return nil, nil, false
	}
	al, oka := ld.X.(*ssa.Alloc)
	if !oka {
		return nil, nil, false
	}
	stt, oks := al.Type().Underlying().(*types.Pointer).Elem().Underlying().(*types.Struct)
	if !oks {
		return nil, nil, false
	}
	found := 0
	for _, ref := range *al.Referrers() {
		fa, ok := ref.(*ssa.FieldAddr)
		if !ok {
			continue
		}
		name := stt.Field(fa.Field).Name()
		for _, r2 := range *fa.Referrers() {
			s2, ok := r2.(*ssa.Store)
			if !ok || s2.Addr != fa {
				continue
			}
			switch name {
			case "trueLabel":
				lt = b.labelOf(s2.Val, s.fr, s.env, 0)
				found++
			case "falseLabel":
				lf = b.labelOf(s2.Val, s.fr, s.env, 0)
				found++
			}
		}
	}
	if found != 2 {
		return nil, nil, false
	}
	if lt == nil || lf == nil {
		b.problem("%s: a jump refers to a label that cannot be resolved to a NewLabel call", s.fr.fn.Name())
	}
	return lt, lf, true
}
