package emit

import (
	"fmt"
	"sort"

	"sbpfcheck/origin"
)

// Obj is the linked, object-level view of one program object's automaton.
type Obj struct {
	G        *Graph
	Emits    []*Node
	Next     map[*Node][]*Node // layout successor among EMITs; a nil element means "falls off the end of the object"
	First    []*Node           // first EMITs (nil element: the object can be empty)
	TargetsT map[*Node][]*Node // for EMITs annotated by a jump record: resolved targets (nil element = leaves the object)
	TargetsF map[*Node][]*Node
	Problems []Problem
	Labels   map[string]*LabelVal
	NJrec    int
	NBind    int
	NNew     int
}

// Problem is a typestate / structure violation found while linking.
type Problem struct {
	Rule   string
	Key    string
	Node   *Node
	Detail string
}

// nextEmits returns the EMIT nodes (or nil for END / end of root) reached from n's successors
// without passing another EMIT.
func nextEmits(n *Node) []*Node {
	var out []*Node
	seen := map[*Node]bool{}
	hasEnd := false
	var walk func(x *Node)
	walk = func(x *Node) {
		if seen[x] {
			return
		}
		seen[x] = true
		switch x.Kind {
		case EvEmit:
			out = append(out, x)
			return
		case EvEnd:
			hasEnd = true
			return
		}
		if len(x.Succ) == 0 {
			hasEnd = true // ran off the root function
		}
		for _, s := range x.Succ {
			walk(s)
		}
	}
	if len(n.Succ) == 0 && n.Kind != EvEnd {
		hasEnd = true
	}
	for _, s := range n.Succ {
		walk(s)
	}
	if hasEnd {
		out = append(out, nil)
	}
	return out
}

func firstEmits(entry []*Node) []*Node {
	var out []*Node
	seen := map[*Node]bool{}
	hasEnd := len(entry) == 0
	var walk func(x *Node)
	walk = func(x *Node) {
		if seen[x] {
			return
		}
		seen[x] = true
		switch x.Kind {
		case EvEmit:
			out = append(out, x)
			return
		case EvEnd:
			hasEnd = true
			return
		}
		if len(x.Succ) == 0 {
			hasEnd = true
		}
		for _, s := range x.Succ {
			walk(s)
		}
	}
	for _, e := range entry {
		walk(e)
	}
	if hasEnd {
		out = append(out, nil)
	}
	return out
}

// Link resolves labels and computes the layout relation.
func Link(g *Graph) *Obj {
	o := &Obj{G: g, Next: map[*Node][]*Node{}, TargetsT: map[*Node][]*Node{}, TargetsF: map[*Node][]*Node{}, Labels: map[string]*LabelVal{}}
	for _, n := range g.Nodes {
		switch n.Kind {
		case EvEmit:
			o.Emits = append(o.Emits, n)
			o.Next[n] = nextEmits(n)
		case EvJrec:
			o.NJrec++
		case EvBind:
			o.NBind++
		case EvNew:
			o.NNew++
			o.Labels[n.L.Key()] = n.L
		}
	}
	o.First = firstEmits(g.Entry)
	prob := func(rule, key string, n *Node, format string, a ...interface{}) {
		o.Problems = append(o.Problems, Problem{rule, key, n, fmt.Sprintf(format, a...)})
	}
	// jump records annotate the next EMIT (or, when the record is stored after the emission it describes, the previous
	// one), which must be a JumpIf
	preds := map[*Node][]*Node{}
	for _, n := range g.Nodes {
		for _, s := range n.Succ {
			preds[s] = append(preds[s], n)
		}
	}
	for _, j := range g.Nodes {
		if j.Kind != EvJrec {
			continue
		}
		around := j.Succ
		if j.Lag == 1 {
			around = preds[j]
		}
		// strictly the neighbouring event must be the EMIT
		for _, s := range around {
			if s.Kind != EvEmit || s.Lit == nil || s.Lit.Type != "JumpIf" {
				prob("E1.label", j.Fn.Name()+"/record-then-jump", j, "a jump record is not immediately followed (or preceded) by the emission of a conditional jump (the record's index would name another instruction)")
				continue
			}
			if s.Jrec != nil && s.Jrec != j {
				prob("E1.label", j.Fn.Name()+"/record-then-jump", j, "two different jump records annotate one emission")
			}
			s.Jrec = j
		}
		if len(around) == 0 {
			prob("E1.label", j.Fn.Name()+"/record-then-jump", j, "a jump record does not belong to an emission")
		}
	}
	// resolve labels
	resolve := func(j *Node, l *LabelVal, role string) []*Node {
		if l == nil {
			prob("E1.label", j.Fn.Name()+"/unresolved-label", j, "the %s label of a jump cannot be resolved to a NewLabel call", role)
			return nil
		}
		var binds []*Node
		seen := map[*Node]bool{}
		var walk func(x *Node)
		walk = func(x *Node) {
			if seen[x] {
				return
			}
			seen[x] = true
			switch x.Kind {
			case EvBind:
				if x.L != nil && x.L.Key() == l.Key() {
					binds = append(binds, x)
					return
				}
			case EvNew:
				if x.L.Key() == l.Key() {
					prob("E1.label", "label/"+l.Role+"/unbound", j, "label %s is created again before the jump that uses it found it bound: on this path the label is never bound (the patcher would index an empty candidate list)", l.Role)
					return
				}
			case EvEnd:
				prob("E1.label", "label/"+l.Role+"/unbound", j, "label %s is used by a jump but not bound on every path before the program is assembled", l.Role)
				return
			}
			if len(x.Succ) == 0 && x.Kind != EvEnd {
				prob("E1.label", "label/"+l.Role+"/unbound", j, "label %s is used by a jump but the emitter returns without binding it", l.Role)
			}
			for _, s := range x.Succ {
				walk(s)
			}
		}
		for _, s := range j.Succ {
			walk(s)
		}
		var targets []*Node
		for _, bn := range binds {
			for _, t := range nextEmits(bn) {
				dup := false
				for _, x := range targets {
					if x == t {
						dup = true
					}
				}
				if !dup {
					targets = append(targets, t)
				}
			}
		}
		return targets
	}
	for _, e := range o.Emits {
		if e.Jrec == nil {
			continue
		}
		o.TargetsT[e] = resolve(e.Jrec, e.Jrec.LT, "true")
		o.TargetsF[e] = resolve(e.Jrec, e.Jrec.LF, "false")
	}
	// typestate after a bind: no second bind, no later use, before the site creates a new instance
	for _, bn := range g.Nodes {
		if bn.Kind != EvBind || bn.L == nil {
			continue
		}
		seen := map[*Node]bool{}
		var walk func(x *Node)
		walk = func(x *Node) {
			if seen[x] {
				return
			}
			seen[x] = true
			switch x.Kind {
			case EvBind:
				if x.L != nil && x.L.Key() == bn.L.Key() {
					prob("E1.label", "label/"+bn.L.Role+"/bound-twice", x, "label %s is bound twice", bn.L.Role)
					return
				}
			case EvJrec:
				if (x.LT != nil && x.LT.Key() == bn.L.Key()) || (x.LF != nil && x.LF.Key() == bn.L.Key()) {
					prob("E1.label", "label/"+bn.L.Role+"/used-after-bound", x, "label %s is used by a jump after it was bound (backward jump: rejected by the patcher, or resolved to a later candidate)", bn.L.Role)
					return
				}
			case EvNew:
				if x.L.Key() == bn.L.Key() {
					return
				}
			case EvEnd:
				return
			}
			for _, s := range x.Succ {
				walk(s)
			}
		}
		for _, s := range bn.Succ {
			walk(s)
		}
	}
	// empty alternatives: a label created and bound again without any emission and without being used in between
	for _, nn := range g.Nodes {
		if nn.Kind != EvNew {
			continue
		}
		seen := map[*Node]bool{}
		var walk func(x *Node)
		walk = func(x *Node) {
			if seen[x] {
				return
			}
			seen[x] = true
			switch x.Kind {
			case EvEmit, EvEnd:
				return
			case EvJrec:
				if (x.LT != nil && x.LT.Key() == nn.L.Key()) || (x.LF != nil && x.LF.Key() == nn.L.Key()) {
					return
				}
			case EvBind:
				if x.L != nil && x.L.Key() == nn.L.Key() {
					prob("E1.andor", "label/"+nn.L.Role+"/empty-alternative", x, "label %s is created and bound without any emission in between (operation set on this path: %s): a condition or a whole condition list contributes no comparison, i.e. the rule is silently dropped or weakened", nn.L.Role, x.Ops)
					return
				}
			case EvNew:
				if x != nn && x.L.Key() == nn.L.Key() {
					return
				}
			}
			for _, s := range x.Succ {
				walk(s)
			}
		}
		for _, s := range nn.Succ {
			walk(s)
		}
	}
	// dedupe problems
	seenP := map[string]bool{}
	var ps []Problem
	for _, p := range o.Problems {
		k := p.Rule + "|" + p.Key + "|" + p.Detail
		if !seenP[k] {
			seenP[k] = true
			ps = append(ps, p)
		}
	}
	o.Problems = ps
	return o
}

// ---------------------------------------------------------------- whole programs

// WNode is a node of a whole-program graph: an EMIT of a program object, or a policy-level literal.
type WNode struct {
	ID   int
	Emit *Node    // EMIT node of an object graph (nil for policy-level literals)
	Lit  *Literal // the literal (from Emit or policy level)
	Item int      // index of the sequence item it belongs to
	Obj  *Obj
}

// Item is one element of the concatenation that forms the returned program.
type Item struct {
	Kind    string   // "lit", "obj", "star"
	Lit     *Literal // lit
	Obj     *Obj     // obj / star: the object graph (a group fragment or a single-purpose object)
	Nilable bool     // star: each iteration may also contribute nothing
	Syms    []string // names of the slice variables (SSA values) this item is part of
	fr      *frame   // calling context the item was built in
}

// Whole is the object-level graph of a complete program (one variant of the policy-level predicates).
type Whole struct {
	Variant string
	Items   []*Item
	Nodes   []*WNode
	Start   []*WNode            // first instruction(s); nil element: empty program
	Next    map[*WNode][]*WNode // layout successor; nil element = end of program
	Prev    map[*WNode][]*WNode // layout predecessor; nil element = start of program
	LastOf  []*WNode            // predecessors of the end
	byEmit  map[*Node]*WNode
	litNode map[*Item]*WNode
	Edges   map[*WNode][]Edge // object-level control flow
	Notes   []string
	Bad     []Problem
}

// Edge is an object-level control-flow edge.
type Edge struct {
	To   *WNode // nil: leaves the program (past the end)
	Kind string // "fall", "true", "false", "jump"
}

// Assemble builds the whole-program graph from a sequence of items.
func AssembleWhole(variant string, items []*Item) *Whole {
	w := &Whole{Variant: variant, Items: items, Next: map[*WNode][]*WNode{}, Prev: map[*WNode][]*WNode{}, byEmit: map[*Node]*WNode{}, litNode: map[*Item]*WNode{}, Edges: map[*WNode][]Edge{}}
	mk := func(it int, e *Node, lit *Literal, o *Obj) *WNode {
		n := &WNode{ID: len(w.Nodes), Emit: e, Lit: lit, Item: it, Obj: o}
		w.Nodes = append(w.Nodes, n)
		return n
	}
	for i, it := range items {
		switch it.Kind {
		case "lit":
			w.litNode[it] = mk(i, nil, it.Lit, nil)
		case "obj", "star":
			for _, e := range it.Obj.Emits {
				w.byEmit[e] = mk(i, e, e.Lit, it.Obj)
			}
		}
	}
	// firsts(i): the first instructions of the suffix starting at item i (nil = end of program)
	var firsts func(i int) []*WNode
	memo := map[int][]*WNode{}
	firsts = func(i int) []*WNode {
		if i >= len(items) {
			return []*WNode{nil}
		}
		if v, ok := memo[i]; ok {
			return v
		}
		it := items[i]
		var out []*WNode
		add := func(ns ...*WNode) {
			for _, n := range ns {
				dup := false
				for _, x := range out {
					if x == n {
						dup = true
					}
				}
				if !dup {
					out = append(out, n)
				}
			}
		}
		switch it.Kind {
		case "lit":
			add(w.litNode[it])
		case "obj":
			for _, e := range it.Obj.First {
				if e == nil {
					add(firsts(i + 1)...)
				} else {
					add(w.byEmit[e])
				}
			}
		case "star":
			for _, e := range it.Obj.First {
				if e != nil {
					add(w.byEmit[e])
				}
			}
			add(firsts(i + 1)...) // zero iterations (or only empty ones)
		}
		memo[i] = out
		return out
	}
	addNext := func(a *WNode, bs []*WNode) {
		for _, b := range bs {
			dup := false
			for _, x := range w.Next[a] {
				if x == b {
					dup = true
				}
			}
			if !dup {
				w.Next[a] = append(w.Next[a], b)
				w.Prev[b] = append(w.Prev[b], a)
			}
		}
	}
	for i, it := range items {
		switch it.Kind {
		case "lit":
			addNext(w.litNode[it], firsts(i+1))
		case "obj", "star":
			for _, e := range it.Obj.Emits {
				a := w.byEmit[e]
				for _, nx := range it.Obj.Next[e] {
					if nx != nil {
						addNext(a, []*WNode{w.byEmit[nx]})
						continue
					}
					// falls off the end of the object
					if it.Kind == "star" {
						addNext(a, firsts(i)) // next iteration or what follows
					} else {
						addNext(a, firsts(i+1))
					}
				}
			}
		}
	}
	w.Start = firsts(0)
	for _, s := range w.Start {
		w.Prev[s] = append(w.Prev[s], nil)
	}
	w.LastOf = w.Prev[nil]
	// filter the nil->nil artefact
	var lo []*WNode
	for _, n := range w.LastOf {
		if n != nil {
			lo = append(lo, n)
		}
	}
	// an empty program shows as Start containing nil
	w.LastOf = lo
	return w
}

// Step follows n layout successors k times (set-valued). A nil element means the end of the program was passed.
func (w *Whole) Step(n *WNode, k int) []*WNode {
	cur := []*WNode{n}
	for i := 0; i < k; i++ {
		var nx []*WNode
		seen := map[*WNode]bool{}
		for _, c := range cur {
			if c == nil {
				if !seen[nil] {
					seen[nil] = true
					nx = append(nx, nil)
				}
				continue
			}
			for _, s := range w.Next[c] {
				if !seen[s] {
					seen[s] = true
					nx = append(nx, s)
				}
			}
		}
		cur = nx
	}
	return cur
}

// FromEnd returns the instructions that can be the c-th from the end (c >= 1), and whether the
// program can be shorter than c instructions.
func (w *Whole) FromEnd(c int) (nodes []*WNode, underflow bool) {
	cur := map[*WNode]bool{}
	for _, n := range w.LastOf {
		cur[n] = true
	}
	for _, s := range w.Start {
		if s == nil {
			underflow = true // empty program
		}
	}
	for i := 1; i < c; i++ {
		nx := map[*WNode]bool{}
		for n := range cur {
			for _, p := range w.Prev[n] {
				if p == nil {
					underflow = true
					continue
				}
				nx[p] = true
			}
		}
		cur = nx
	}
	for n := range cur {
		nodes = append(nodes, n)
	}
	sort.Slice(nodes, func(i, j int) bool { return nodes[i].ID < nodes[j].ID })
	return
}

// ConstField returns the integer value of a literal field if it is constant.
func ConstField(l *Literal, name string) (int64, bool) {
	o, ok := l.Fields[name]
	if !ok || o == nil {
		return 0, false
	}
	return o.IsConstInt()
}

// FieldOrigin returns the origin of a literal field.
func FieldOrigin(l *Literal, name string) *origin.O {
	if l == nil {
		return nil
	}
	return l.Fields[name]
}

// BuildEdges computes the object-level control flow of the whole program. skipOf resolves the
// non-constant skip of a policy-level jump literal to a set of targets (or reports a problem).
func (w *Whole) BuildEdges(skipOf func(n *WNode, field string) ([]*WNode, bool)) {
	bad := func(n *WNode, rule, key, format string, a ...interface{}) {
		var e *Node
		if n != nil {
			e = n.Emit
		}
		w.Bad = append(w.Bad, Problem{rule, key, e, fmt.Sprintf(format, a...)})
	}
	for _, n := range w.Nodes {
		var es []Edge
		addAll := func(ts []*WNode, kind string) {
			for _, t := range ts {
				es = append(es, Edge{t, kind})
			}
		}
		switch n.Lit.Type {
		case "RetConstant":
		case "LoadAbsolute":
			addAll(w.Next[n], "fall")
		case "JumpIf":
			if n.Emit != nil && n.Emit.Jrec != nil {
				conv := func(ts []*Node) []*WNode {
					var out []*WNode
					for _, t := range ts {
						if t == nil {
							// label bound behind the last instruction of the object: the target is whatever follows the object
							out = append(out, w.afterObject(n)...)
						} else {
							out = append(out, w.byEmit[t])
						}
					}
					return out
				}
				addAll(conv(n.Obj.TargetsT[n.Emit]), "true")
				addAll(conv(n.Obj.TargetsF[n.Emit]), "false")
				break
			}
			for _, f := range []struct{ field, kind string }{{"SkipTrue", "true"}, {"SkipFalse", "false"}} {
				if k, ok := ConstField(n.Lit, f.field); ok {
					addAll(w.Step(n, int(k)+1), f.kind)
				} else if skipOf != nil {
					ts, ok := skipOf(n, f.field)
					if !ok {
						bad(n, "E1.arch", "jump-literal/"+f.field, "the %s of a conditional jump literal is neither constant nor a recognised length expression", f.field)
					}
					addAll(ts, f.kind)
				} else {
					bad(n, "E1.arch", "jump-literal/"+f.field, "non-constant skip in a jump literal")
				}
			}
		case "Jump":
			if k, ok := ConstField(n.Lit, "Skip"); ok {
				addAll(w.Step(n, int(k)+1), "jump")
			} else if skipOf != nil {
				ts, ok := skipOf(n, "Skip")
				if !ok {
					bad(n, "E1.arch", "jump-literal/Skip", "the Skip of an unconditional jump literal is neither constant nor a recognised length expression")
				}
				addAll(ts, "jump")
			}
		default:
			addAll(w.Next[n], "fall")
		}
		w.Edges[n] = es
	}
}

// afterObject: the instructions that follow the object n belongs to.
func (w *Whole) afterObject(n *WNode) []*WNode {
	var out []*WNode
	seen := map[*WNode]bool{}
	for _, e := range n.Obj.Emits {
		for _, nx := range n.Obj.Next[e] {
			if nx == nil {
				for _, t := range w.Next[w.byEmit[e]] {
					if t == nil || t.Obj != n.Obj || t.Item != n.Item {
						if !seen[t] {
							seen[t] = true
							out = append(out, t)
						}
					}
				}
			}
		}
	}
	return out
}
