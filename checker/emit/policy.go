package emit

import (
	"fmt"
	"go/token"
	"go/types"
	"sort"
	"strings"

	"golang.org/x/tools/go/ssa"

	"sbpfcheck/origin"
)

// LinForm is c + sum of lengths of slice values.
type LinForm struct {
	C    int64
	Syms map[ssa.Value]int64
	OK   bool
}

func newForm(c int64) LinForm { return LinForm{C: c, Syms: map[ssa.Value]int64{}, OK: true} }

func (a LinForm) add(b LinForm, sign int64) LinForm {
	r := newForm(a.C + sign*b.C)
	r.OK = a.OK && b.OK
	for k, v := range a.Syms {
		r.Syms[k] += v
	}
	for k, v := range b.Syms {
		r.Syms[k] += sign * v
	}
	for k, v := range r.Syms {
		if v == 0 {
			delete(r.Syms, k)
		}
	}
	return r
}

// Add returns a + sign*b.
func (a LinForm) Add(b LinForm, sign int64) LinForm { return a.add(b, sign) }

// AddConst returns a + c.
func (a LinForm) AddConst(c int64) LinForm { return a.add(newForm(c), 1) }

// IsConst reports whether the form is a constant.
func (a LinForm) IsConst() (int64, bool) { return a.C, a.OK && len(a.Syms) == 0 }

func (a LinForm) String() string {
	var parts []string
	for k, v := range a.Syms {
		n := k.Name()
		if ph, ok := k.(*ssa.Phi); ok && ph.Comment != "" {
			n = ph.Comment
		}
		if v == 1 {
			parts = append(parts, "|"+n+"|")
		} else {
			parts = append(parts, fmt.Sprintf("%d*|%s|", v, n))
		}
	}
	sort.Strings(parts)
	parts = append(parts, fmt.Sprint(a.C))
	return strings.Join(parts, " + ")
}

// PolicyEval evaluates the slice values of the policy-level assembler under one variant of its predicates.
type PolicyEval struct {
	Fn       *ssa.Function
	B        *Builder
	Variant  map[string]bool // "x86_64", "short"
	FragOf   func(call *ssa.Call) *Obj
	ObjOf    func(al *ssa.Alloc) *Obj
	Problems []string
	Items    []*Item
	PosOf    map[*Item]LinForm // position of literal items in the returned program
	Total    LinForm
	JumpN    ssa.Value // the value compared with 255
	ArchIf   *ssa.If
	ShortIf  *ssa.If
	res      *origin.Resolver
	litVal   map[*Item]ssa.Value
}

func (pe *PolicyEval) problem(format string, a ...interface{}) {
	pe.Problems = append(pe.Problems, fmt.Sprintf(format, a...))
}

// predOf classifies a branch condition of the policy-level assembler.
func (pe *PolicyEval) predOf(cond ssa.Value) (string, bool) {
	bo, ok := cond.(*ssa.BinOp)
	if !ok {
		return "", false
	}
	if bo.Op == token.EQL {
		x := pe.res.Of(bo.X, nil, bo)
		y := pe.res.Of(bo.Y, nil, bo)
		isID := func(o *origin.O) bool { return o.Kind == origin.KField && o.Field.Name() == "ID" }
		isX8664 := func(o *origin.O) bool { return isID(o) && strings.Contains(o.Args[0].String(), "global:X86_64") }
		isOwn := func(o *origin.O) bool { return isID(o) && strings.Contains(o.Args[0].String(), ".arch") }
		if (isX8664(x) && isOwn(y)) || (isX8664(y) && isOwn(x)) {
			return "x86_64", true
		}
	}
	if bo.Op == token.LEQ {
		if k, ok := constInt(bo.Y); ok && k == 255 {
			if f := pe.intForm(bo.X); f.OK && len(f.Syms) > 0 {
				return "short", true
			}
		}
	}
	return "", false
}

// feasible: is block b consistent with the variant (looking at the recognised predicates that dominate it)?
func (pe *PolicyEval) feasible(b *ssa.BasicBlock) bool {
	for d := b.Idom(); d != nil; d = d.Idom() {
		if len(d.Instrs) == 0 {
			continue
		}
		ifi, ok := d.Instrs[len(d.Instrs)-1].(*ssa.If)
		if !ok {
			continue
		}
		name, ok := pe.predOf(ifi.Cond)
		if !ok {
			continue
		}
		want := pe.Variant[name]
		onTrue := d.Succs[0] == b || d.Succs[0].Dominates(b)
		onFalse := d.Succs[1] == b || d.Succs[1].Dominates(b)
		// a block dominated by exactly one arm
		if onTrue && !onFalse && len(d.Succs[0].Preds) == 1 && !want {
			return false
		}
		if onFalse && !onTrue && len(d.Succs[1].Preds) == 1 && want {
			return false
		}
	}
	return true
}

func isInstrSliceT(t types.Type) bool {
	s, ok := t.Underlying().(*types.Slice)
	if !ok {
		return false
	}
	n, ok := s.Elem().(*types.Named)
	return ok && n.Obj().Name() == "Instruction"
}

// phiEdge resolves a phi under the variant: the single feasible incoming edge, or -1.
func (pe *PolicyEval) phiEdge(ph *ssa.Phi) int {
	idx := -1
	n := 0
	for i, p := range ph.Block().Preds {
		// the edge p -> block is feasible if p is feasible and, when p ends in a recognised predicate, the arm matches
		if !pe.feasible(p) {
			continue
		}
		if len(p.Instrs) > 0 {
			if ifi, ok := p.Instrs[len(p.Instrs)-1].(*ssa.If); ok {
				if name, ok := pe.predOf(ifi.Cond); ok {
					want := pe.Variant[name]
					if (p.Succs[0] == ph.Block()) != want && p.Succs[0] != p.Succs[1] {
						continue
					}
				}
			}
		}
		idx = i
		n++
	}
	if n == 1 {
		return idx
	}
	return -1
}

// lenForm: symbolic length of a slice value.
func (pe *PolicyEval) lenForm(v ssa.Value) LinForm {
	switch x := v.(type) {
	case *ssa.Const:
		return newForm(0)
	case *ssa.MakeSlice:
		if k, ok := constInt(x.Len); ok {
			return newForm(k)
		}
	case *ssa.Slice:
		if vals, ok := elementsOf(x); ok {
			return newForm(int64(len(vals)))
		}
	case *ssa.Call:
		if isBuiltin(x, "append") && len(x.Call.Args) == 2 {
			a := pe.lenForm(x.Call.Args[0])
			if vals, ok := elementsOf(x.Call.Args[1]); ok {
				return a.add(newForm(int64(len(vals))), 1)
			}
			return a.add(pe.lenForm(x.Call.Args[1]), 1)
		}
	case *ssa.Phi:
		if e := pe.phiEdge(x); e >= 0 && !isLoopPhi(x) {
			return pe.lenForm(x.Edges[e])
		}
	}
	f := newForm(0)
	f.Syms[v] = 1
	return f
}

func isLoopPhi(ph *ssa.Phi) bool {
	for _, p := range ph.Block().Preds {
		if ph.Block().Dominates(p) {
			return true
		}
	}
	return false
}

// intForm: symbolic value of an int expression over len().
func (pe *PolicyEval) intForm(v ssa.Value) LinForm {
	switch x := v.(type) {
	case *ssa.Const:
		if k, ok := constInt(x); ok {
			return newForm(k)
		}
	case *ssa.Convert:
		return pe.intForm(x.X)
	case *ssa.BinOp:
		switch x.Op {
		case token.ADD:
			return pe.intForm(x.X).add(pe.intForm(x.Y), 1)
		case token.SUB:
			return pe.intForm(x.X).add(pe.intForm(x.Y), -1)
		}
	case *ssa.Call:
		if isBuiltin(x, "len") {
			return pe.lenSym(x.Call.Args[0])
		}
	}
	f := newForm(0)
	f.OK = false
	return f
}

// IntForm is the exported form evaluation.
func (pe *PolicyEval) IntForm(v ssa.Value) LinForm { return pe.intForm(v) }

// lenSym keeps named slice variables (phis, appends that end a variable's life) as symbols, so that the form of the
// skip and the form of the layout are expressed over the same symbols.
func (pe *PolicyEval) lenSym(v ssa.Value) LinForm {
	f := newForm(0)
	f.Syms[v] = 1
	return f
}

// Eval computes the item sequence of the returned program.
func (pe *PolicyEval) Eval() {
	pe.res = origin.NewResolver()
	pe.PosOf = map[*Item]LinForm{}
	pe.litVal = map[*Item]ssa.Value{}
	// the success return: the one whose error is the nil constant
	var ret *ssa.Return
	for _, b := range pe.Fn.Blocks {
		if len(b.Instrs) == 0 {
			continue
		}
		if r, ok := b.Instrs[len(b.Instrs)-1].(*ssa.Return); ok && len(r.Results) == 2 {
			if c, ok := r.Results[1].(*ssa.Const); ok && c.IsNil() {
				if c0, ok := r.Results[0].(*ssa.Const); ok && c0.IsNil() {
					continue
				}
				if ret != nil {
					pe.problem("more than one success return")
				}
				ret = r
			}
		}
	}
	if ret == nil {
		pe.problem("no success return found")
		return
	}
	for _, b := range pe.Fn.Blocks {
		if len(b.Instrs) == 0 {
			continue
		}
		if ifi, ok := b.Instrs[len(b.Instrs)-1].(*ssa.If); ok {
			if name, ok := pe.predOf(ifi.Cond); ok {
				switch name {
				case "x86_64":
					pe.ArchIf = ifi
				case "short":
					pe.ShortIf = ifi
					pe.JumpN = ifi.Cond.(*ssa.BinOp).X
				}
			}
		}
	}
	pos := newForm(0)
	pe.Items = pe.seq(ret.Results[0], &pos, nil, 0)
	pe.Total = pos
}

// seq expands a slice value into items. pos is advanced by the symbolic length; syms is the stack of slice
// variables being expanded (their lengths are symbols of the forms).
func (pe *PolicyEval) seq(v ssa.Value, pos *LinForm, syms []string, depth int) []*Item {
	if depth > 40 {
		pe.problem("sequence expression too deep")
		return nil
	}
	switch x := v.(type) {
	case *ssa.Const:
		return nil
	case *ssa.MakeSlice:
		if k, ok := constInt(x.Len); ok && k == 0 {
			return nil
		}
		pe.problem("make with non-zero length in the program sequence")
		return nil
	case *ssa.Slice:
		vals, ok := elementsOf(x)
		if !ok {
			pe.problem("slice expression in the program sequence that is not a literal")
			return nil
		}
		return pe.lits(vals, pos, syms)
	case *ssa.Call:
		if isBuiltin(x, "append") && len(x.Call.Args) == 2 {
			out := pe.seq(x.Call.Args[0], pos, syms, depth+1)
			if vals, ok := elementsOf(x.Call.Args[1]); ok {
				return append(out, pe.lits(vals, pos, syms)...)
			}
			// append(x, y...): y is a slice variable; its length is a symbol
			y := x.Call.Args[1]
			name := symName(y)
			sub := newForm(0)
			items := pe.seq(y, &sub, append(append([]string{}, syms...), name), depth+1)
			f := newForm(0)
			f.Syms[y] = 1
			*pos = pos.add(f, 1)
			return append(out, items...)
		}
	case *ssa.Phi:
		if isLoopPhi(x) {
			return pe.loop(x, pos, syms, depth)
		}
		if e := pe.phiEdge(x); e >= 0 {
			return pe.seq(x.Edges[e], pos, syms, depth+1)
		}
		pe.problem("a program slice joins values under a condition the analysis does not track (%s)", x.Comment)
		return nil
	case *ssa.Extract:
		if c, ok := x.Tuple.(*ssa.Call); ok && x.Index == 0 && pe.FragOf != nil {
			if o := pe.FragOf(c); o != nil {
				return []*Item{{Kind: "obj", Obj: o, Syms: syms}}
			}
		}
	case *ssa.UnOp:
		if x.Op == token.MUL {
			if fa, ok := x.X.(*ssa.FieldAddr); ok {
				if al, ok := fa.X.(*ssa.Alloc); ok && pe.ObjOf != nil {
					if o := pe.ObjOf(al); o != nil {
						return []*Item{{Kind: "obj", Obj: o, Syms: syms}}
					}
				}
			}
		}
	}
	pe.problem("unrecognised program slice expression %T", v)
	return nil
}

func symName(v ssa.Value) string {
	if ph, ok := v.(*ssa.Phi); ok && ph.Comment != "" {
		return ph.Comment
	}
	return v.Name()
}

func (pe *PolicyEval) lits(vals []ssa.Value, pos *LinForm, syms []string) []*Item {
	var out []*Item
	for _, v := range vals {
		lit := pe.B.literalOf(v, state{fr: &frame{fn: pe.Fn, of: nil, id: "policy"}, env: env{phis: map[string]int{}}})
		it := &Item{Kind: "lit", Lit: lit, Syms: syms}
		pe.PosOf[it] = pos.add(newForm(0), 1)
		pe.litVal[it] = v
		*pos = pos.add(newForm(1), 1)
		out = append(out, it)
	}
	return out
}

// loop: phi [pre: X, latch: append(phi, t...)] => X then (t)*
func (pe *PolicyEval) loop(ph *ssa.Phi, pos *LinForm, syms []string, depth int) []*Item {
	var out []*Item
	H := ph.Block()
	for i, ed := range ph.Edges {
		pred := H.Preds[i]
		if !H.Dominates(pred) {
			out = append(out, pe.seq(ed, pos, syms, depth+1)...)
		}
	}
	for i, ed := range ph.Edges {
		pred := H.Preds[i]
		if !H.Dominates(pred) {
			continue
		}
		app, ok := ed.(*ssa.Call)
		if !ok || !isBuiltin(app, "append") || app.Call.Args[0] != ssa.Value(ph) {
			pe.problem("the group accumulator is not extended by append(acc, fragment...) at its end")
			continue
		}
		sub := newForm(0)
		body := pe.seq(app.Call.Args[1], &sub, syms, depth+1)
		if len(body) != 1 || body[0].Kind != "obj" {
			pe.problem("the per-group contribution is not a single fragment")
			continue
		}
		body[0].Kind = "star"
		out = append(out, body[0])
	}
	return out
}
