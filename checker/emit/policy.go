package emit

import (
	"fmt"
	"go/token"
	"go/types"
	"sort"
	"strings"

	"golang.org/x/tools/go/ssa"

	"sbpfcheck/flow"
	"sbpfcheck/origin"
)

// Sym is a leaf of a symbolic length: a slice value (in a calling context) whose length is not known statically.
type Sym struct {
	V  ssa.Value
	Fr string
}

// LinForm is c + sum of lengths of slice values.
type LinForm struct {
	C    int64
	Syms map[Sym]int64
	OK   bool
}

func newForm(c int64) LinForm { return LinForm{C: c, Syms: map[Sym]int64{}, OK: true} }

func symForm(v ssa.Value, fr *frame) LinForm {
	f := newForm(0)
	id := ""
	if fr != nil {
		id = fr.id
	}
	f.Syms[Sym{v, id}] = 1
	return f
}

func (a LinForm) add(b LinForm, sign int64) LinForm {
	r := newForm(a.C + sign*b.C)
	r.OK = a.OK && b.OK
	for k, v := range a.Syms {
		r.Syms[k] += v
	}
	for k, v := range b.Syms {
		r.Syms[k] += sign * v
	}
	for k, v := range r.Syms {
		if v == 0 {
			delete(r.Syms, k)
		}
	}
	return r
}

// Add returns a + sign*b.
func (a LinForm) Add(b LinForm, sign int64) LinForm { return a.add(b, sign) }

// AddConst returns a + c.
func (a LinForm) AddConst(c int64) LinForm { return a.add(newForm(c), 1) }

// IsConst reports whether the form is a constant.
func (a LinForm) IsConst() (int64, bool) { return a.C, a.OK && len(a.Syms) == 0 }

func (a LinForm) String() string {
	var parts []string
	for k, v := range a.Syms {
		n := k.V.Name()
		if ph, ok := k.V.(*ssa.Phi); ok && ph.Comment != "" {
			n = ph.Comment
		}
		if al, ok := k.V.(*ssa.Alloc); ok && al.Comment != "" {
			n = al.Comment
		}
		if v == 1 {
			parts = append(parts, "|"+n+"|")
		} else {
			parts = append(parts, fmt.Sprintf("%d*|%s|", v, n))
		}
	}
	sort.Strings(parts)
	parts = append(parts, fmt.Sprint(a.C))
	return strings.Join(parts, " + ")
}

// Frame is a calling context of the policy-level evaluation.
type Frame = frame

// PolicyEval evaluates the slice value returned by the policy-level assembler under one variant of its predicates
// ("x86_64": the policy's architecture is x86_64; "short": the architecture jump fits a conditional jump).  The
// evaluation follows calls to functions of the module that return instruction slices (each under the same variant),
// so it does not matter whether the pieces are built inline or by helper functions.
type PolicyEval struct {
	Fn       *ssa.Function
	B        *Builder
	Variant  map[string]bool // "x86_64", "short"
	FragOf   func(call *ssa.Call) *Obj
	ObjOf    func(al *ssa.Alloc, fr *Frame) *Obj
	Problems []string
	Items    []*Item
	PosOf    map[*Item]LinForm // position of literal items in the returned program
	Total    LinForm
	Preds    map[string]int // recognised predicate branches by name
	root     *frame
	dry      bool
}

func (pe *PolicyEval) problem(format string, a ...interface{}) {
	if pe.dry {
		pe.Problems = append(pe.Problems, "dry")
		return
	}
	msg := fmt.Sprintf(format, a...)
	for _, p := range pe.Problems {
		if p == msg {
			return
		}
	}
	pe.Problems = append(pe.Problems, msg)
}

func (pe *PolicyEval) resolver(fr *frame) *origin.Resolver {
	return pe.B.resolver(fr, env{phis: map[string]int{}})
}

// predOf classifies a branch condition of the policy-level assembler: the predicate's name and whether the
// condition being true means the predicate holds.
func (pe *PolicyEval) predOf(cond ssa.Value, fr *frame) (string, bool, bool) {
	c := flow.Norm(flow.Cond{V: cond, Pol: true})
	bo, ok := c.V.(*ssa.BinOp)
	if !ok {
		return "", false, false
	}
	if bo.Op == token.EQL || bo.Op == token.NEQ {
		res := pe.resolver(fr)
		x := res.Of(bo.X, fr.of, bo)
		y := res.Of(bo.Y, fr.of, bo)
		isID := func(o *origin.O) bool { return o.Kind == origin.KField && o.Field.Name() == "ID" }
		isX8664 := func(o *origin.O) bool { return isID(o) && strings.Contains(o.Args[0].String(), "global:X86_64") }
		isOwn := func(o *origin.O) bool { return isID(o) && strings.Contains(o.Args[0].String(), ".arch") }
		if (isX8664(x) && isOwn(y)) || (isX8664(y) && isOwn(x)) {
			return "x86_64", (bo.Op == token.EQL) == c.Pol, true
		}
	}
	// the reach of a conditional jump: any spelling of `n <= 255`
	if ip, ok := flow.AsIntPred(cond, true); ok {
		if f := pe.intForm(ip.X, fr); f.OK && len(f.Syms) > 0 {
			switch {
			case ip.Holds(0) && ip.Holds(255) && !ip.Holds(256) && !ip.Holds(1<<20):
				return "short", true, true
			case !ip.Holds(0) && !ip.Holds(255) && ip.Holds(256) && ip.Holds(1<<20):
				return "short", false, true
			}
		}
	}
	return "", false, false
}

// feasible: is block b consistent with the variant (looking at the recognised predicates that dominate it)?
func (pe *PolicyEval) feasible(b *ssa.BasicBlock, fr *frame) bool {
	for d := b.Idom(); d != nil; d = d.Idom() {
		if len(d.Instrs) == 0 {
			continue
		}
		ifi, ok := d.Instrs[len(d.Instrs)-1].(*ssa.If)
		if !ok {
			continue
		}
		name, sense, ok := pe.predOf(ifi.Cond, fr)
		if !ok {
			continue
		}
		want := pe.Variant[name] == sense // the condition's value under the variant
		onTrue := d.Succs[0] == b || d.Succs[0].Dominates(b)
		onFalse := d.Succs[1] == b || d.Succs[1].Dominates(b)
		// a block dominated by exactly one arm
		if onTrue && !onFalse && len(d.Succs[0].Preds) == 1 && !want {
			return false
		}
		if onFalse && !onTrue && len(d.Succs[1].Preds) == 1 && want {
			return false
		}
	}
	return true
}

func isInstrSliceT(t types.Type) bool {
	s, ok := t.Underlying().(*types.Slice)
	if !ok {
		return false
	}
	n, ok := s.Elem().(*types.Named)
	return ok && n.Obj().Name() == "Instruction"
}

// phiEdge resolves a phi under the variant: the single feasible incoming edge, or -1.
func (pe *PolicyEval) phiEdge(ph *ssa.Phi, fr *frame) int {
	idx := -1
	n := 0
	for i, p := range ph.Block().Preds {
		// the edge p -> block is feasible if p is feasible and, when p ends in a recognised predicate, the arm matches
		if !pe.feasible(p, fr) {
			continue
		}
		if len(p.Instrs) > 0 {
			if ifi, ok := p.Instrs[len(p.Instrs)-1].(*ssa.If); ok {
				if name, sense, ok := pe.predOf(ifi.Cond, fr); ok {
					want := pe.Variant[name] == sense
					if (p.Succs[0] == ph.Block()) != want && p.Succs[0] != p.Succs[1] {
						continue
					}
				}
			}
		}
		idx = i
		n++
	}
	if n == 1 {
		return idx
	}
	return -1
}

func isLoopPhi(ph *ssa.Phi) bool {
	for _, p := range ph.Block().Preds {
		if ph.Block().Dominates(p) {
			return true
		}
	}
	return false
}

// argOf maps a parameter of the frame's function to the caller's argument.
func argOf(p *ssa.Parameter, fr *frame) (ssa.Value, bool) {
	if fr == nil || fr.call == nil {
		return nil, false
	}
	for i, q := range fr.fn.Params {
		if q == p && i < len(fr.call.Call.Args) {
			return fr.call.Call.Args[i], true
		}
	}
	return nil, false
}

// intForm: symbolic value of an int expression over len().
func (pe *PolicyEval) intForm(v ssa.Value, fr *frame) LinForm {
	switch x := v.(type) {
	case *ssa.Const:
		if k, ok := constInt(x); ok {
			return newForm(k)
		}
	case *ssa.Convert:
		return pe.intForm(x.X, fr)
	case *ssa.BinOp:
		switch x.Op {
		case token.ADD:
			return pe.intForm(x.X, fr).add(pe.intForm(x.Y, fr), 1)
		case token.SUB:
			return pe.intForm(x.X, fr).add(pe.intForm(x.Y, fr), -1)
		}
	case *ssa.Parameter:
		if a, ok := argOf(x, fr); ok {
			return pe.intForm(a, fr.parent)
		}
	case *ssa.Call:
		if isBuiltin(x, "len") {
			return pe.lenOf(x.Call.Args[0], fr)
		}
	}
	f := newForm(0)
	f.OK = false
	return f
}

// IntForm evaluates the integer expression behind a literal's field.
func (pe *PolicyEval) IntForm(v ssa.Value, it *Item) LinForm {
	fr := pe.root
	if it != nil && it.fr != nil {
		fr = it.fr
	}
	return pe.intForm(v, fr)
}

// lenOf: the symbolic length of a slice value, by the same expansion that lays the program out (so that the form of a
// jump distance and the form of the layout are expressed over the same leaves).
func (pe *PolicyEval) lenOf(v ssa.Value, fr *frame) LinForm {
	tmp := &PolicyEval{Fn: pe.Fn, B: pe.B, Variant: pe.Variant, FragOf: pe.FragOf, ObjOf: pe.ObjOf, PosOf: map[*Item]LinForm{}, root: pe.root, dry: true, Preds: map[string]int{}}
	pos := newForm(0)
	tmp.seq(v, fr, &pos, nil, 0)
	if len(tmp.Problems) > 0 {
		pos.OK = false
	}
	return pos
}

// Eval computes the item sequence of the returned program.
func (pe *PolicyEval) Eval() {
	pe.PosOf = map[*Item]LinForm{}
	pe.Preds = map[string]int{}
	if pe.B.frames == nil {
		pe.B.frames = map[string]*frame{}
	}
	pe.root = &frame{fn: pe.Fn, of: nil, id: "policy"}
	// the success return: the one whose error is the nil constant
	var ret *ssa.Return
	for _, b := range pe.Fn.Blocks {
		if len(b.Instrs) == 0 {
			continue
		}
		if r, ok := b.Instrs[len(b.Instrs)-1].(*ssa.Return); ok && len(r.Results) == 2 {
			if c, ok := r.Results[1].(*ssa.Const); ok && c.IsNil() {
				if c0, ok := r.Results[0].(*ssa.Const); ok && c0.IsNil() {
					continue
				}
				if ret != nil {
					pe.problem("more than one success return")
				}
				ret = r
			}
		}
	}
	if ret == nil {
		pe.problem("no success return found")
		return
	}
	pos := newForm(0)
	pe.Items = pe.seq(ret.Results[0], pe.root, &pos, nil, 0)
	pe.Total = pos
}

// seq expands a slice value into items. pos is advanced by the (symbolic) length; syms is the stack of slice
// variables being expanded.
func (pe *PolicyEval) seq(v ssa.Value, fr *frame, pos *LinForm, syms []string, depth int) []*Item {
	if depth > 60 {
		pe.problem("sequence expression too deep")
		return nil
	}
	switch x := v.(type) {
	case *ssa.Const:
		return nil
	case *ssa.ChangeType:
		return pe.seq(x.X, fr, pos, syms, depth+1)
	case *ssa.MakeSlice:
		if k, ok := constInt(x.Len); ok && k == 0 {
			return nil
		}
		pe.problem("make with non-zero length in the program sequence")
		return nil
	case *ssa.Slice:
		vals, ok := elementsOf(x)
		if !ok {
			pe.problem("slice expression in the program sequence that is not a literal")
			return nil
		}
		return pe.lits(vals, fr, pos, syms)
	case *ssa.Parameter:
		if a, ok := argOf(x, fr); ok {
			return pe.seq(a, fr.parent, pos, syms, depth+1)
		}
	case *ssa.Call:
		if isBuiltin(x, "append") && len(x.Call.Args) == 2 {
			out := pe.seq(x.Call.Args[0], fr, pos, syms, depth+1)
			if vals, ok := elementsOf(x.Call.Args[1]); ok {
				return append(out, pe.lits(vals, fr, pos, syms)...)
			}
			// append(x, y...): y is a slice variable
			y := x.Call.Args[1]
			items := pe.seq(y, fr, pos, append(append([]string{}, syms...), symName(y)), depth+1)
			return append(out, items...)
		}
		if cal := x.Call.StaticCallee(); cal != nil && cal.Pkg == pe.B.Pkg && len(cal.Blocks) > 0 && cal.Signature.Results().Len() == 1 && isInstrSliceT(cal.Signature.Results().At(0).Type()) {
			if depthOf(fr) > 8 {
				pe.problem("call depth exceeds 8 in the program sequence (recursion?) at %s", cal.Name())
				return nil
			}
			nf := pe.B.frameFor(fr, x, cal, env{phis: map[string]int{}})
			var rets []*ssa.Return
			for _, b := range cal.Blocks {
				if len(b.Instrs) == 0 {
					continue
				}
				if r, ok := b.Instrs[len(b.Instrs)-1].(*ssa.Return); ok && pe.feasible(b, nf) {
					rets = append(rets, r)
				}
			}
			if len(rets) != 1 || len(rets[0].Results) != 1 {
				pe.problem("%s has %d return statements that are possible under the variant (a program piece chosen by a condition the analysis does not track)", cal.Name(), len(rets))
				return nil
			}
			return pe.seq(rets[0].Results[0], nf, pos, syms, depth+1)
		}
	case *ssa.Phi:
		if isLoopPhi(x) {
			return pe.loop(x, fr, pos, syms, depth)
		}
		if e := pe.phiEdge(x, fr); e >= 0 {
			return pe.seq(x.Edges[e], fr, pos, syms, depth+1)
		}
		pe.problem("a program slice joins values under a condition the analysis does not track (%s)", x.Comment)
		return nil
	case *ssa.Extract:
		if c, ok := x.Tuple.(*ssa.Call); ok && x.Index == 0 && pe.FragOf != nil {
			if o := pe.FragOf(c); o != nil {
				*pos = pos.add(symForm(c, fr), 1)
				return []*Item{{Kind: "obj", Obj: o, Syms: syms, fr: fr}}
			}
		}
	case *ssa.UnOp:
		if x.Op == token.MUL {
			if fa, ok := x.X.(*ssa.FieldAddr); ok {
				if al, ok := fa.X.(*ssa.Alloc); ok && pe.ObjOf != nil {
					if o := pe.ObjOf(al, fr); o != nil {
						*pos = pos.add(symForm(al, fr), 1)
						return []*Item{{Kind: "obj", Obj: o, Syms: syms, fr: fr}}
					}
				}
			}
		}
	}
	pe.problem("unrecognised program slice expression %T (%s)", v, v.String())
	return nil
}

func symName(v ssa.Value) string {
	if ph, ok := v.(*ssa.Phi); ok && ph.Comment != "" {
		return ph.Comment
	}
	return v.Name()
}

func (pe *PolicyEval) lits(vals []ssa.Value, fr *frame, pos *LinForm, syms []string) []*Item {
	var out []*Item
	for _, v := range vals {
		it := &Item{Kind: "lit", Syms: syms, fr: fr}
		if !pe.dry {
			it.Lit = pe.B.literalOf(v, state{fr: fr, env: env{phis: map[string]int{}}})
			pe.PosOf[it] = pos.add(newForm(0), 1)
		}
		*pos = pos.add(newForm(1), 1)
		out = append(out, it)
	}
	return out
}

// loop: phi [pre: X, latch: append(phi, t...)] => X then (t)*
func (pe *PolicyEval) loop(ph *ssa.Phi, fr *frame, pos *LinForm, syms []string, depth int) []*Item {
	var out []*Item
	H := ph.Block()
	for i, ed := range ph.Edges {
		pred := H.Preds[i]
		if !H.Dominates(pred) {
			out = append(out, pe.seq(ed, fr, pos, syms, depth+1)...)
		}
	}
	for i, ed := range ph.Edges {
		pred := H.Preds[i]
		if !H.Dominates(pred) {
			continue
		}
		app, ok := ed.(*ssa.Call)
		if !ok || !isBuiltin(app, "append") || app.Call.Args[0] != ssa.Value(ph) {
			pe.problem("the group accumulator is not extended by append(acc, fragment...) at its end")
			continue
		}
		sub := newForm(0)
		body := pe.seq(app.Call.Args[1], fr, &sub, syms, depth+1)
		if len(body) != 1 || body[0].Kind != "obj" {
			pe.problem("the per-group contribution is not a single fragment")
			continue
		}
		body[0].Kind = "star"
		*pos = pos.add(symForm(ph, fr), 1)
		out = append(out, body[0])
	}
	return out
}

// FrameID names a calling context.
func FrameID(fr *Frame) string {
	if fr == nil {
		return ""
	}
	return fr.id
}
