#!/bin/bash
# usage: recheck.sh [ids...]   -- fast regression over the seeded corpus: apply each patch to a scratch copy and run only the
# check of the property the seed was written against (no build of the tests, no demonstration); prints MISSED for any
# seed whose own property's check stays silent. SBPF_BIN overrides the checker binary.
cd /verif || exit 1
export GOFLAGS=-mod=mod GOPROXY=off GOSUMDB=off GOTOOLCHAIN=local GOWORK=off
BIN=${SBPF_BIN:-/verif/bin/sbpfcheck}
one() {
  id=$1; d=/verif/seeded/$id
  [ -f $d/patch.diff ] || { echo "$id: no patch"; return; }
  prop=$(python3 -c "import json;print(json.load(open('$d/meta.json'))['breaks_property'])")
  D=$(mktemp -d /tmp/rc.XXXXXX)
  rsync -a --exclude .git /repo/ "$D/"
  if ! ( cd "$D" && git init -q . >/dev/null 2>&1 && git apply "$d/patch.diff" ) 2>/dev/null; then echo "$id: patch does not apply to the current tree (skipped)"; rm -rf "$D"; return; fi
  out=$(SBPF_REPO=$D $BIN -prop $prop -tier quick -verif "$D/.verif" 2>&1); rc=$?
  if [ $rc -ne 0 ]; then echo "$id: detected by $prop ($(echo "$out" | grep -E '^   (VIOLATED|UNDECIDED)' | head -1 | awk '{print $1,$2}'))"; else echo "$id: MISSED by $prop"; fi
  rm -rf "$D"
}
export -f one; export BIN
if [ $# -gt 0 ]; then ids="$@"; else ids=$(ls seeded); fi
printf '%s\n' $ids | xargs -P ${JOBS:-8} -I{} bash -c 'one {}'
