#!/bin/bash
# usage: trydiffs.sh <dir-with-rNN.diff> [props]   -- false-alarm test: apply each diff to a scratch copy, run the checks (in parallel), report anything that fires
set -u
DIR=$(realpath "$1"); PROPS=${2:-"C01 C02 C03 C04 C05 C06 C07 C08 C09 C10 C11 C12 C13 C14 C15 C16 C17 C18 C19"}
export GOFLAGS=-mod=mod GOPROXY=off GOSUMDB=off GOTOOLCHAIN=local GOWORK=off
BIN=${SBPF_BIN:-/verif/bin/sbpfcheck}
for df in "$DIR"/r*.diff; do
  D=$(mktemp -d /tmp/rf.XXXXXX)
  rsync -a --exclude .git /repo/ "$D/"
  if ! ( cd "$D" && git init -q . >/dev/null 2>&1; git apply "$df" ); then echo "$(basename $df): DOES NOT APPLY"; rm -rf "$D"; continue; fi
  ( cd "$D" && go build ./... ) >/dev/null 2>&1 || { echo "$(basename $df): build fails"; rm -rf "$D"; continue; }
  mkdir -p "$D/.out"
  # warm the build cache once (E6 compiles the tree), then all properties in parallel
  for P in $PROPS; do
    ( SBPF_REPO=$D $BIN -prop $P -tier quick -verif "$D/.verif.$P" >"$D/.out/$P.txt" 2>&1; echo $? >"$D/.out/$P.rc" ) &
    # at most 10 at a time
    while [ "$(jobs -r | wc -l)" -ge 10 ]; do sleep 0.2; done
  done
  wait
  FIRED=""
  for P in $PROPS; do
    RC=$(cat "$D/.out/$P.rc" 2>/dev/null || echo 99)
    if [ "$RC" -ne 0 ]; then FIRED="$FIRED $P"; grep -E '^   (VIOLATED|UNDECIDED)|vacuous|FLOOR|panic' "$D/.out/$P.txt" | cut -c1-330 | head -8 | sed "s/^/   [$(basename $df) $P] /"; fi
  done
  echo "$(basename $df): fired:${FIRED:- none}"
  rm -rf "$D"
done
