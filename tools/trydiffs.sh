#!/bin/sh
# usage: trydiffs.sh <dir-with-rNN.diff> [props]   -- false-alarm test: apply each diff to a scratch copy, run the checks, report anything that fires
set -u
DIR=$(realpath "$1"); PROPS=${2:-"C01 C02 C03 C04 C05 C06 C07 C08 C09 C10 C11 C12 C13 C14 C15 C16 C17 C18 C19"}
export GOFLAGS=-mod=mod GOPROXY=off GOSUMDB=off GOTOOLCHAIN=local GOWORK=off
for df in "$DIR"/r*.diff; do
  D=$(mktemp -d /tmp/rf.XXXXXX)
  rsync -a --exclude .git /repo/ "$D/"
  if ! ( cd "$D" && git init -q . >/dev/null 2>&1; git apply "$df" ); then echo "$(basename $df): DOES NOT APPLY"; rm -rf "$D"; continue; fi
  ( cd "$D" && go build ./... ) >/dev/null 2>&1 || { echo "$(basename $df): build fails"; rm -rf "$D"; continue; }
  FIRED=""
  for P in $PROPS; do
    OUT=$(SBPF_REPO=$D ${SBPF_BIN:-/verif/bin/sbpfcheck} -prop $P -tier quick -verif "$D/.verif" 2>&1); RC=$?
    if [ $RC -ne 0 ]; then FIRED="$FIRED $P"; echo "$OUT" | grep -E '^   (VIOLATED|UNDECIDED)|vacuous|FLOOR|panic' | cut -c1-330 | head -8 | sed "s/^/   [$(basename $df) $P] /"; fi
  done
  echo "$(basename $df): fired:${FIRED:- none}"
  rm -rf "$D"
done
