#!/usr/bin/env python3
"""Writes /verif/MANIFEST.json from the table below (one place to keep it current)."""
import json, os
HERE = os.path.dirname(os.path.dirname(os.path.abspath(__file__)))

# id -> (level, technique, text, note, design_ref)   or   id -> reason string (not claimed)
CHECKS = {
 "C12": ("proof", "table/constant agreement with vendored oracles + injectivity over the type-checked literals (go/types), SSA shape checks of invert/GetInfo; who-may-write check on the package-level tables (directly, through Info field aliases, through parameter-writing helpers)",
         "Exhaustive comparison of every row of the five syscall table literals, the audit constants, the Info literals and the alias map, as evaluated by the Go type checker, with independent oracle tables; proof relative to those oracle files.",
         "Trusted: go/types constant evaluation, go/ssa, /verif/oracle/oracle.json (x/sys v0.19.0, v0.29.0, v0.48.0, GOROOT syscall tables, /usr/include UAPI headers). Rows no oracle lists are counted, not compared.",
         "DESIGN.md section 4, C12"),
 "C19": ("proof", "per-target constant evaluation (go/types under all 49 GOOS/GOARCH of `go tool dist list`), build-constraint file selection (also: every function the compiler entry points reach is declared in a file all targets build), AST check of the stubs, dominance check of GetInfo / Policy.Assemble",
         "Every constant the library exposes is evaluated by the type checker under every distribution target and compared with the vendored UAPI values; stubs are shown call-free; the unsupported-architecture path is a dominance fact. Exhaustive over the finite target list.",
         "Trusted: go/types, go list file selection, oracle.json (linux/seccomp.h, prctl.h, errno headers; mips ENOSYS recorded by hand).",
         "DESIGN.md section 4, C19"),
 "C14": ("other", "table agreement (parser and printer read one injective lower-case map; Operations = const block), SSA guard/dominance check of the Unpack methods, struct-tag key agreement and numeric-validator check over all types reachable from Policy; which decoder the sandbox reaches, that the parsed document is the whole file and that the Unpack target is an untouched local; marshaller options (omitempty on numeric fields)",
         "Decides the name-table and key-agreement clauses (necessary conditions of the round trip); the behaviour of go-ucfg / yaml.v2 on concrete documents is third-party run-time behaviour and is not claimed.",
         "Trusted: go/types, go/ssa, tag-key conventions of go-ucfg, yaml.v2 and encoding/json. go-ucfg numeric validators (required/nonzero/positive/min/max) as in v0.8. Not covered: number widths, validators on non-numeric fields, concrete documents.",
         "DESIGN.md section 4, C14"),
 "C08": ("other", "SSA value-flow chain followed backwards from the installation call through helper functions: seccomp(2) arg 3 <- SockFprog{Len: len(S), Filter: &S[0]} <- S = element-wise conversion (counted-loop abstraction: every index once, unconditional body, field-for-field) of exactly the slice returned by bpf.Assemble <- Policy.Assemble of filter.Policy; wrapper parameters reach the raw syscall through conversions only; when LoadFilter is split into helpers/closures the same chain is decided on the loader's event traces (engine E8: path enumeration with fallible-call forks and path-specific value following); plus `requires`: the rules of C01-C06 (the compiled program's decisions), of C09 (nil only if the filter is in force) and of C12 (numbers and audit-architecture word are the kernel's) are run on the same loaded program and a violation of any of them is reported as a violation of C08",
         "Program-identity clause only (second sentence of the property). The kernel's decisions after the load are run-time behaviour: not applicable to static analysis and not claimed.",
         "Trusted: go/ssa, SYS_SECCOMP oracle, bpf.Assemble maps one instruction to one raw instruction.",
         "DESIGN.md section 4, C08"),
 "C09": ("other", "result-inspection and error-discipline rules on SSA with dominators: errno and r1 of the raw seccomp call, failure edges of every fallible call in LoadFilter, `return nil` only behind the seccomp success edge, no syscall-reaching call before both compile steps succeeded, constant probe triple; second decision procedure for the LoadFilter-shaped rules: event traces of the loader (E8); error-discipline helpers fall back on path enumeration (E9)",
         "All paths through the loader, including the failure paths no test executes; kernel return-value contract is trusted (seccomp(2), prctl(2)).",
         "Trusted: go/ssa dominators; seccomp(2) RETURN VALUE section (TSYNC: positive tid, errno 0); kernel answers EINVAL to (STRICT, flags!=0).",
         "DESIGN.md section 4, C09"),
 "C10": ("other", "SSA value-origin: Filter.Flag reaches syscall argument 2 through conversions only; flag constants vs UAPI; sandbox literal carries TSYNC; the flag argument is resolved along the loader's event traces (E8) when the call sits in a helper or closure; plus `requires`: the rules of C09 (a nil result means the kernel attached the filter) are run on the same loaded program",
         "Flag-word clause only; 'every thread under every schedule' is the kernel's seccomp_sync_threads plus the scheduler: not applicable to static analysis and not claimed.",
         "Trusted: go/ssa; linux/seccomp.h flag values.",
         "DESIGN.md section 4, C10"),
 "C11": ("other", "control-dependence, dominance and typestate rules on LoadFilter's CFG: prctl iff filter.NoNewPrivs, before seccomp, error returned, raw prctl arguments resolved through the variadic copy, both syscalls bracketed by runtime.LockOSThread/UnlockOSThread; or, for a loader split into helpers/closures, the same statements as trace properties over the enumerated event traces (E8: prctl only under the assumption NoNewPrivs=true, every seccomp event preceded by a successful prctl iff true, lock depth > 0 and unchanged between the two calls)",
         "Holds on every path and therefore under every goroutine schedule (thread pinning is a structural fact); kernel acceptance is trusted.",
         "Trusted: go/ssa dominators, runtime.LockOSThread semantics, prctl(2) argument contract.",
         "DESIGN.md section 4, C11"),
 "C15": ("other", "dominance rules on the no-return-pruned CFG of cmd/sandbox.main: process start dominated by the success edges of the parser and of LoadFilter; every failure region ends in os.Exit(non-zero) without a process start; value-origin of Filter.Policy; TSYNC in the literal; plus `requires`: the rules of C07 (invalid policies are rejected), C09 (a refused load is an error), C08 (with C01-C06) and C14 (the configuration path) are run on the same loaded program and a violation of any of them is reported as a violation of C15",
         "All paths through main, including each failure edge; that the target observes exactly the policy's decisions is C01-C08 plus the kernel and is not claimed.",
         "Trusted: go/ssa, os.Exit/log.Fatal do not return, enumerated process-start functions of os/exec, os, syscall.",
         "DESIGN.md section 4, C15"),
 "C16": ("other", "panic-site obligations (gc prove pass BCE listing joined to SSA + SSA scan + nil-dereference guards), loop-form/recursion classification for termination, scanner-error and error-branch discipline, dominance/phi-edge rules for the instruction window, append-only result, name-from-table under `found`, reported number unchanged after the lookup",
         "Covers every function of the disasm package on all paths (any text); necessary structural conditions for each clause of the statement.",
         "Trusted: go/ssa, the compiler's prove pass (compiles, never runs), listed std functions do not panic on any string; API root pointer parameters assumed non-nil.",
         "DESIGN.md section 4, C16"),
 "C17": ("other", "publish-by-rename typestate, interprocedural: the cache path (the value the dump producer returns on success, followed into helpers as an alias set) is never created directly, only os.Rename'd into place; the rename is dominated, through helpers whose nil returns establish it, by the checked success of Run, Flush and Close; the producer returns the path only behind a successful publish or a validated cache hit (inline or in a boolean helper): complete, error-free read of a 64-byte marker equal to the binary's SHA-256; where one error variable is shared by several calls or a deferred closure rewrites the named result, the same success/failure statements are decided by path-sensitive enumeration of the function's paths (E9)",
         "Decides which file states any crash point or disassembler failure can leave under the trusted name from the shape of the writer (all paths).",
         "Trusted: go/ssa dominators, atomic rename within a directory, exec.Cmd.Run error contract. Not covered: directory fsync durability (not in the statement).",
         "DESIGN.md section 4, C17"),
 "C18": ("other", "abstract interpretation of the profiler's list handling (engine E7): every string collection is mapped to a set expression over the base sets F, BL, AL, ARCH by summarising element-wise loops (any spelling) under the membership tests on each path, helpers are followed, `len(flag) > 0` joins are resolved; the result is compared with the specified expression by a 16-row truth table; duplicate-freeness, name validity and sortedness are attributes of the abstract value; typed AST of the profile literal, parsed text/template, tag/key agreement, single-YAML-document rule; plus `requires`: the rules of C14 (configuration path), C01 (allow-list semantics) and C16 (the reported names are table entries of the reported numbers) are run on the same loaded program",
         "Decides the first sentence of the property exactly (set equation for all inputs with disjoint flag sets, sorted, duplicate-free, valid names) and, for the second sentence, the document layout / keys / single-document necessary conditions; how go-ucfg and yaml.v2 parse a concrete document is third-party run-time behaviour and is not claimed.",
         "Trusted: go/ssa, sort.Strings, text/template/parse, yaml.v2 key conventions and marker-free Marshal output; relies on C12 (injective tables) and C16 (Name = table[Num]). A construct the interpreter does not model makes the obligation undecided (fails).",
         "DESIGN.md section 4, C18"),
 "C13": ("other", "effect analysis: purpose-built inclusion-based points-to (abstract CALLER/GLOBAL/OTHER memory) over everything reachable from the exported API, classification of every range over a map as order-(in)sensitive, no-concurrency-construct scan",
         "All reachable code on all paths: no write can touch caller-owned or package-level memory (one whitelisted cell), no order-sensitive map iteration; determinism, input immutability and race-freedom for distinct policy values follow.",
         "Trusted: go/ssa; the points-to analysis is a field- and context-insensitive over-approximation with explicit summaries for builtins, sort/slices mutators and read-only packages; an unsummarised call receiving caller/global memory fails the check.",
         "DESIGN.md section 4, C13"),
 "C01": ("other; plus `requires`: the rules of C06 (the patcher keeps the label-level meaning at every size) are run on the same loaded program and a violation is reported as a violation of this property", "emitter automaton (E1): path-sensitive event automaton of the code generator over go/ssa, label resolution, whole-program object graph with symbolic fragment lengths; spine reachability along no-match edges, entry/action edge rules, accumulator typing, value-origin of the compared number, return-builder contract; effect analysis (E1.readonly): compiling writes no memory reachable from the policy and no package-level state, and nothing outside package initialisation writes a package-level variable the compile path reads; core.loopvar: no escaping closure captures a loop variable shared between iterations under the module's language version",
         "A complete argument on the schema of all label-level programs (every policy maps into the analysed graph): first matching group else default, errno carries EPERM. Stated at label level; equality with emitted lists above 255 instructions is C06 (necessary conditions only), which is why the level is `other` and not `proof`.",
         "Trusted: go/ssa, cBPF semantics, syscall tables (C12), the E1 engine itself. Conservative: a construct the automaton does not model fails the check.",
         "DESIGN.md sections 2.2 and 4, C01"),
 "C02": ("proof", "template extraction per operation from the emitter automaton and exhaustive evaluation over the ordering classes {<,=,>}^2 / bit classes {0,1}^2 (a complete partition of all 2^128 argument/operand pairs), in both byte-order worlds, last and non-last position; affine constant propagation of the word offsets per byte-order branch; byte-order detection cases; re-evaluation of the program-building functions' constant expressions under the 386 and arm size models",
         "Finite, exhaustive case split: 62 class rows per (position, byte order) = 248 rows, all must agree with the unsigned 64-bit relation; word selection derived for both layouts (the tests force big-endian and cannot see the production layout).",
         "Trusted: go/ssa, cBPF jump-test semantics, struct seccomp_data layout, the E1 engine. Label level (C06).",
         "DESIGN.md section 4, C02"),
 "C03": ("other", "E1 object graph: AND/OR edge rules by label role (loop level of the label's creation across the inlined emitter tree) and last-iteration predicate, empty-alternative typestate, accumulator typing of every comparison on all paths and variants; value-origin of every lowered condition (element of a full range over the entry's own lists, no function in between); path-count rule (exactly one outcome per conditional name) and in-place merge shape in toSyscallsWithConditions",
         "All policies at label level: AND within a list, OR across lists, and no comparison against a syscall number with an argument word in the accumulator (the statement's last sentence).",
         "Trusted: go/ssa, cBPF semantics, C02 for the meaning of one condition. Label level (C06).",
         "DESIGN.md section 4, C03"),
 "C04": ("other; plus `requires`: the rules of C06 (the patcher keeps the label-level meaning at every size) are run on the same loaded program and a violation is reported as a violation of this property", "E1 whole-program graph per variant (x86_64/other x short/long arch jump): position + 1 + skip evaluated as a linear form over symbolic fragment lengths, suffix query on the layout automaton, edge rules for the arch compare and the x32 guard, accumulator typing",
         "Complete at label level for both jump encodings and every program size (the distance to the end is shown constant); `other` because the label-to-emitted step above 255 instructions is C06.",
         "Trusted: go/ssa, cBPF semantics (unsigned jge), UAPI constants (oracle), arch.X32 literal (C12).",
         "DESIGN.md section 4, C04"),
 "C05": ("other; plus `requires`: the rules of C06 (the patcher keeps the label-level meaning at every size) are run on the same loaded program and a violation is reported as a violation of this property", "E1: instruction-kind whitelist and load-offset forms over every emitted literal instance, label typestate (created, bound once on every path, not used after bound, followed by an instruction), successor/tail/underflow queries per variant, closed return set, patcher bridge kinds; E2.narrow: every narrowing integer conversion exact, guarded or listed with a reason",
         "The verifier's documented conditions decided on the label-level schema; kernel acceptance of patched programs above 255 instructions depends on C06; the 4096 bound is not analysed.",
         "Trusted: go/ssa, documented bpf_check_classic / seccomp_check_filter conditions, x/net/bpf encoding of the four kinds.",
         "DESIGN.md section 4, C05"),
 "C06": ("other", "affine-dimension (point/vector) typing of Index arithmetic, coverage of every Index-typed storage cell by updateIndices, recognised insertion idioms, anchor rule, affine back-to-front traversal, quiescence before the 8-bit conversion, stale-skip and stale-position (no Index value survives a call that can insert) rules over the patcher's SSA, bridge-kind and bridge-skip origin rules; width of the exported position types",
         "Necessary conditions only (each one the reason of a real or seeded defect): full behavioural equivalence of the patcher is an inductive invariant over mutable state and is NOT claimed.",
         "Trusted: go/ssa, cBPF jump semantics. A sufficient discipline is recognised for the order rule, so a differently organised correct patcher could be reported (stated conservatism).",
         "DESIGN.md section 4, C06"),
 "C07": ("other", "dominance and guard-shape rules for every listed rejection (resolved on value origins), nil-on-error over the compile call graph, sibling agreement of four operation tables (constants, Operations, validated set, lowered set from the E1 automaton), unreachability of the patcher's own errors at label level, enumeration of panic sites (gc prove pass listing + SSA scan + nil guards); every listed name ends in entry, merge or problem; the validated group is the policy's own group; the converse clause as a closed-world rule (E3.accept-closed): every error origination site of the compile call graph is decided, on its nearest branches, by the rejecting side of one of the listed defect classes; bounds-check listing for every module package on the compile path, value-dependent panic sites (make, Repeat, Grow, Must*, division)",
         "Every listed defect class is rejected before emission with (nil, error) on all paths; nothing is silently dropped; panics inside the patcher's index arithmetic are assumed under C06, not proved.",
         "Trusted: go/ssa dominators, gc prove pass, E1 engine.",
         "DESIGN.md section 4, C07"),
}
NOT_YET = "check under construction in this session (see DESIGN.md section 4 for the planned rules); not claimed until it runs"
ALL = ["C%02d" % i for i in range(1, 20)]

def main():
    checks, na = [], []
    for pid in ALL:
        c = CHECKS.get(pid)
        if isinstance(c, tuple):
            level, tech, text, note, ref = c
            if ";" in level:  # "other; plus `requires`: ..." -> the enum value stays bare, the rest goes into the text
                level, extra = level.split(";", 1)
                text = text + " Also" + extra.replace(" plus", "", 1)
            checks.append({
                "property_id": pid,
                "quick_cmd": "./check.sh %s quick" % pid,
                "thorough_cmd": "./check.sh %s thorough" % pid,
                "evidence_file": "evidence/%s.json" % pid,
                "replay_cmd_template": "bin/sbpfcheck explain {path}",
                "engine": "sbpfcheck",
                "level_claimed": {"category": level, "text": text, "design_ref": ref},
                "level_note": note,
                "technique": "static analysis: " + tech,
            })
        else:
            na.append({"property_id": pid, "reason": c or NOT_YET})
    m = {
        "version": 1,
        "setup_cmd": "cd checker && GOFLAGS=-mod=mod GOPROXY=off GOSUMDB=off GOTOOLCHAIN=local GOWORK=off go build -o ../bin/sbpfcheck .",
        "hooks": {
            "guard": "verif",
            "enable": "none needed: the checks read /repo's source (go/packages + go/ssa) and never build or run it with hooks; no hook commits exist",
            "baseline_off_cmd": "cd /repo && GOFLAGS=-mod=mod GOPROXY=off GOSUMDB=off go test -vet=off -count=1 ./...",
            "source_commits": [],
            "add_only": True,
        },
        "engines": [
            {"name": "sbpfcheck", "path": "checker", "serves_properties": [c["property_id"] for c in checks],
             "kind_free_text": "repository-specific static analyser (Go, golang.org/x/tools v0.29.0: go/packages, go/types, go/ssa, dominators, call graph); never imports or runs /repo code"},
        ],
        "checks": checks,
        "not_applicable": na,
        "notes": "All checks are static analyses of /repo's current working tree (SBPF_REPO overrides the tree). check.sh rebuilds the checker when its sources are newer than bin/sbpfcheck. Known findings: known_findings.json. Design: DESIGN.md.",
    }
    try:
        import jsonschema
        jsonschema.validate(m, json.load(open("/root/.vp/MANIFEST.schema.json")))
    except ImportError:
        print("warning: jsonschema not importable; manifest not validated")
    json.dump(m, open(os.path.join(HERE, "MANIFEST.json"), "w"), indent=1)
    print("claimed:", [c["property_id"] for c in checks], "not claimed:", [n["property_id"] for n in na])

main()
