#!/usr/bin/env python3
"""Writes /verif/MANIFEST.json from the table below (one place to keep it current)."""
import json, os
HERE = os.path.dirname(os.path.dirname(os.path.abspath(__file__)))

# id -> (level, technique, text, note, design_ref)   or   id -> reason string (not claimed)
CHECKS = {
 "C12": ("proof", "table/constant agreement with vendored oracles + injectivity over the type-checked literals (go/types), SSA shape checks of invert/GetInfo",
         "Exhaustive comparison of every row of the five syscall table literals, the audit constants, the Info literals and the alias map, as evaluated by the Go type checker, with independent oracle tables; proof relative to those oracle files.",
         "Trusted: go/types constant evaluation, go/ssa, /verif/oracle/oracle.json (x/sys v0.19.0, GOROOT syscall tables, /usr/include UAPI headers). Rows no oracle lists are counted, not compared.",
         "DESIGN.md section 4, C12"),
}
NOT_YET = "check under construction in this session (see DESIGN.md section 4 for the planned rules); not claimed until it runs"
ALL = ["C%02d" % i for i in range(1, 20)]

def main():
    checks, na = [], []
    for pid in ALL:
        c = CHECKS.get(pid)
        if isinstance(c, tuple):
            level, tech, text, note, ref = c
            checks.append({
                "property_id": pid,
                "quick_cmd": "./check.sh %s quick" % pid,
                "thorough_cmd": "./check.sh %s thorough" % pid,
                "evidence_file": "evidence/%s.json" % pid,
                "replay_cmd_template": "bin/sbpfcheck explain {path}",
                "engine": "sbpfcheck",
                "level_claimed": {"category": level, "text": text, "design_ref": ref},
                "level_note": note,
                "technique": "static analysis: " + tech,
            })
        else:
            na.append({"property_id": pid, "reason": c or NOT_YET})
    m = {
        "version": 1,
        "setup_cmd": "cd checker && GOFLAGS=-mod=mod GOPROXY=off GOSUMDB=off GOTOOLCHAIN=local GOWORK=off go build -o ../bin/sbpfcheck .",
        "hooks": {
            "guard": "verif",
            "enable": "none needed: the checks read /repo's source (go/packages + go/ssa) and never build or run it with hooks; no hook commits exist",
            "baseline_off_cmd": "cd /repo && GOFLAGS=-mod=mod GOPROXY=off GOSUMDB=off go test -vet=off -count=1 ./...",
            "source_commits": [],
            "add_only": True,
        },
        "engines": [
            {"name": "sbpfcheck", "path": "checker", "serves_properties": [c["property_id"] for c in checks],
             "kind_free_text": "repository-specific static analyser (Go, golang.org/x/tools v0.29.0: go/packages, go/types, go/ssa, dominators, call graph); never imports or runs /repo code"},
        ],
        "checks": checks,
        "not_applicable": na,
        "notes": "All checks are static analyses of /repo's current working tree (SBPF_REPO overrides the tree). check.sh rebuilds the checker when its sources are newer than bin/sbpfcheck. Known findings: known_findings.json. Design: DESIGN.md.",
    }
    json.dump(m, open(os.path.join(HERE, "MANIFEST.json"), "w"), indent=1)
    print("claimed:", [c["property_id"] for c in checks], "not claimed:", [n["property_id"] for n in na])

main()
