#!/bin/sh
# Re-verify every filed seeded variant against the current checker and refresh detected_by in its meta.json.
# The set of properties checked per variant: the one it breaks plus every property listed in checked_properties.
cd /verif || exit 1
for d in seeded/*/; do
  id=$(basename $d)
  props=$(python3 -c "import json;m=json.load(open('$d/meta.json'));print(','.join(dict.fromkeys([m['breaks_property']]+m.get('checked_properties',[]))))")
  echo "== $id ($props)"
  tools/seedverify.sh $id $props /verif/seeded/$id 2>&1 | grep -E 'DETECTED|demo with|existing tests|PATCH|build:' | tr '\n' ' '; echo
done
