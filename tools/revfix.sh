#!/bin/sh
# Files each `fix:` commit of /repo, reversed, as a seeded variant (historical defect control): the check of the
# property it repaired must fire on a scratch copy with the fix reverted.
# usage: revfix.sh <commit> <id> <property[,property...]>
set -u
C=$1; ID=$2; PROPS=$3
S=$(mktemp -d /tmp/revfix.XXXXXX); trap 'rm -rf "$S"' EXIT
git -C /repo diff $C $C~1 -- . > "$S/patch.diff"
python3 - "$S" "$C" "$PROPS" <<'PY'
import json,sys,os
s,c,props=sys.argv[1:4]
subj=os.popen('git -C /repo log --format=%s -1 '+c).read().strip()
body=os.popen('git -C /repo log --format=%b -1 '+c).read().strip()
json.dump({"property":props.split(',')[0],"summary":"REVERT of `%s` (%s): re-introduces the genuine defect that commit repaired. %s"%(subj,c,body.replace('\n',' ')),
 "needs_to_manifest":"see DESIGN.md section 3 for the demonstrating input of this defect","files_changed":[]},open(s+'/meta.json','w'),indent=1)
PY
/verif/tools/seedverify.sh $ID $PROPS "$S"
