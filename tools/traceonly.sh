#!/bin/sh
# usage: traceonly.sh <patch>...   -- apply each patch to a scratch copy and let the trace engine (E8) alone decide C08..C11
export GOFLAGS=-mod=mod GOPROXY=off GOSUMDB=off GOTOOLCHAIN=local GOWORK=off
BIN=${SBPF_BIN:-/verif/bin/sbpfcheck}
for df in "$@"; do
  df=$(realpath "$df")
  D=$(mktemp -d /tmp/rf.XXXXXX)
  rsync -a --exclude .git /repo/ "$D/"
  ( cd "$D" && git init -q . >/dev/null 2>&1; git apply "$df" ) || { echo "$df: DOES NOT APPLY"; rm -rf "$D"; continue; }
  FIRED=""
  for P in C08 C09 C10 C11; do
    OUT=$(SBPF_TRACE=only SBPF_REPO=$D $BIN -prop $P -tier quick -verif "$D/.verif" 2>&1); RC=$?
    if [ $RC -ne 0 ]; then FIRED="$FIRED $P"; echo "$OUT" | grep -E '^   (VIOLATED|UNDECIDED)|FLOOR|panic' | cut -c1-300 | head -4 | sed "s/^/   [$P] /"; fi
  done
  echo "$df: fired:${FIRED:- none}"
  rm -rf "$D"
done
