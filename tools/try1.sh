#!/bin/sh
# usage: try1.sh <file.diff> "<props>" [grep-pattern]  -- apply one diff to a scratch copy and show what the named checks say
set -u
DF=$(realpath "$1"); PROPS=$2; PAT=${3:-'^   (VIOLATED|UNDECIDED)|vacuous|panic'}
export GOFLAGS=-mod=mod GOPROXY=off GOSUMDB=off GOTOOLCHAIN=local GOWORK=off
D=$(mktemp -d /tmp/rf.XXXXXX); trap 'rm -rf "$D"' EXIT
rsync -a --exclude .git /repo/ "$D/"
( cd "$D" && git init -q . >/dev/null 2>&1; git apply "$DF" ) || { echo "DOES NOT APPLY"; exit 2; }
( cd "$D" && go build ./... ) || { echo "build fails"; exit 2; }
for P in $PROPS; do
  OUT=$(SBPF_REPO=$D ${SBPF_BIN:-/verif/bin/sbpfcheck} -prop $P -tier quick -verif "$D/.verif" 2>&1); RC=$?
  echo "$OUT" | grep -E "$PAT" | cut -c1-500 | head -${LINES_MAX:-12}
  echo "== $P exit=$RC"
done
