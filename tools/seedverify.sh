#!/bin/sh
# usage: seedverify.sh <id> <property[,property...]> [srcdir]
# Confirms a seeded change independently (applies, builds, existing tests green, demo fails with / passes without)
# in a scratch copy, runs the property checks against the changed copy, and files it under /verif/seeded/<id>/.
set -u
ID=$1; PROPS=$2; SRC=${3:-/tmp/wt/$ID.out}
export GOFLAGS=-mod=mod GOPROXY=off GOSUMDB=off GOTOOLCHAIN=local GOWORK=off
D=$(mktemp -d /tmp/seed.XXXXXX); trap 'rm -rf "$D"' EXIT
rsync -a --exclude .git /repo/ "$D/"
LOG="$D/.log"; : > "$LOG"
say() { echo "$@" | tee -a "$LOG"; }
( cd "$D" && git init -q . >/dev/null 2>&1; git apply --check "$SRC/patch.diff" ) || { say "PATCH DOES NOT APPLY"; exit 2; }
( cd "$D" && git apply "$SRC/patch.diff" )
( cd "$D" && go build ./... ) >>"$LOG" 2>&1 && say "build: ok" || { say "build: FAILS"; exit 2; }
if ( cd "$D" && go test -vet=off -count=1 -timeout 300s ./... 2>&1 | grep -E '^(FAIL|---|panic)' | head -3 | grep . ); then say "existing tests: FAIL with the change (not admissible)"; exit 2; else say "existing tests: pass with the change"; fi
# demo
DEMO=""
if [ ! -f "$SRC/run.sh" ]; then for f in "$SRC"/demo_test.go "$SRC"/*_test.go "$SRC"/demo_test.go.txt; do [ -f "$f" ] && DEMO="$f" && break; done; fi
RES_WITH=skipped; RES_WITHOUT=skipped
if [ -n "$DEMO" ]; then
  PKGDIR=$(grep -m1 -E '^package ' "$DEMO" | awk '{print $2}')
  case "$PKGDIR" in seccomp|seccomp_test) TD="$D";; disasm) TD="$D/cmd/seccomp-profiler/disasm";; arch|arch_test) TD="$D/arch";; main) TD="$D/$(cat "$SRC/demo_dir" 2>/dev/null || echo cmd/seccomp-profiler)";; *) TD="$D";; esac
  cp "$DEMO" "$TD/zz_seed_demo_linux_test.go"
  # run only the demonstration's own tests (the package's TestLoadFilter installs a filter in the test process)
  PAT=$(grep -oE '^func (Test[A-Za-z0-9_]+)' "$DEMO" | awk '{print $2}' | paste -sd'|')
  RACE=""; grep -q '"demo_command".*-race' "$SRC/meta.json" "$SRC/agent_meta.json" 2>/dev/null && RACE="-race"
  if ( cd "$TD" && go test $RACE -vet=off -count=1 -timeout 300s -run "^($PAT)\$" . ) >"$D/.with" 2>&1; then RES_WITH=pass; else RES_WITH=fail; fi
  ( cd "$D" && git apply -R "$SRC/patch.diff" )
  if ( cd "$TD" && go test $RACE -vet=off -count=1 -timeout 300s -run "^($PAT)\$" . ) >"$D/.without" 2>&1; then RES_WITHOUT=pass; else RES_WITHOUT=fail; fi
  ( cd "$D" && git apply "$SRC/patch.diff" ); rm -f "$TD/zz_seed_demo_linux_test.go"
elif [ -f "$SRC/run.sh" ]; then
  # run.sh gets the checkout as its argument and is started from the checkout's root (both conventions occur)
  if ( cd "$D" && bash "$SRC/run.sh" "$D" ) >"$D/.with" 2>&1; then RES_WITH=pass; else RES_WITH=fail; fi
  ( cd "$D" && git apply -R "$SRC/patch.diff" )
  if ( cd "$D" && bash "$SRC/run.sh" "$D" ) >"$D/.without" 2>&1; then RES_WITHOUT=pass; else RES_WITHOUT=fail; fi
  ( cd "$D" && git apply "$SRC/patch.diff" )
fi
say "demo with the change: $RES_WITH (want fail); without: $RES_WITHOUT (want pass)"
DET=""
for P in $(echo $PROPS | tr , ' '); do
  OUT=$(SBPF_REPO=$D ${SBPF_BIN:-/verif/bin/sbpfcheck} -prop $P -tier quick -verif "$D/.verif" 2>&1); RC=$?
  echo "$OUT" | grep -E '^   (VIOLATED|UNDECIDED)' | cut -c1-400 | head -6 | tee -a "$LOG"
  say "check $P: exit=$RC"
  [ $RC -ne 0 ] && DET="$DET $P"
done
say "DETECTED BY:${DET:- none}"
mkdir -p /verif/seeded/$ID
[ "$SRC" != "/verif/seeded/$ID" ] && cp "$SRC/patch.diff" /verif/seeded/$ID/patch.diff
if [ "$SRC" != "/verif/seeded/$ID" ]; then
[ -n "$DEMO" ] && cp "$DEMO" /verif/seeded/$ID/demo_test.go.txt
[ -f "$SRC/run.sh" ] && cp "$SRC/run.sh" /verif/seeded/$ID/run.sh
for aux in "$SRC"/main.go "$SRC"/demo_main.go "$SRC"/*_linux_test.go "$SRC"/*.yml "$SRC"/*.txt; do [ -f "$aux" ] && cp "$aux" /verif/seeded/$ID/; done
[ -f "$SRC/demo_dir" ] && cp "$SRC/demo_dir" /verif/seeded/$ID/demo_dir
[ -f "$SRC/meta.json" ] && cp "$SRC/meta.json" /verif/seeded/$ID/agent_meta.json
fi
cp "$LOG" /verif/seeded/$ID/verify.log
python3 - "$ID" "$PROPS" "$RES_WITH" "$RES_WITHOUT" "$DET" <<'PY'
import json,sys,os
id,props,w,wo,det=sys.argv[1:6]
d='/verif/seeded/'+id
am={}
try: am=json.load(open(d+'/agent_meta.json'))
except Exception: pass
meta={"id":id,"breaks_property":props.split(',')[0],"checked_properties":props.split(','),
 "summary":am.get("summary",""),"needs_to_manifest":am.get("needs_to_manifest",""),
 "confirmed":{"applies":True,"builds":True,"existing_tests_pass_with_change":True,"demo_with_change":w,"demo_without_change":wo},
 "what_i_ran":"tools/seedverify.sh %s %s (scratch copy of /repo HEAD: git apply, go build, go test ./..., demo with and without the change, then bin/sbpfcheck -prop <P> against the changed copy)"%(id,props),
 "detected_by":det.split(),
 "repo_commit":os.popen('git -C /repo log --format=%h -1').read().strip()}
json.dump(meta,open(d+'/meta.json','w'),indent=1)
PY
