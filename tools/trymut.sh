#!/bin/sh
# usage: trymut.sh <prop[,prop...]> <file> <sed-expression> [notest]
# Copies /repo to a scratch dir, applies the sed edit to <file>, checks that it still builds and
# that the repository's tests pass, then runs the property checks against the copy.
# Development aid for testing the checker both ways; nothing here is registered in the manifest.
set -u
PROPS=$1; FILE=$2; EXPR=$3; NOTEST=${4:-}
export GOFLAGS=-mod=mod GOPROXY=off GOSUMDB=off GOTOOLCHAIN=local GOWORK=off
D=$(mktemp -d /tmp/mut.XXXXXX)
trap 'rm -rf "$D"' EXIT
rsync -a --exclude .git /repo/ "$D/"
sed -i -E "$EXPR" "$D/$FILE"
if diff -q /repo/$FILE $D/$FILE >/dev/null; then echo "MUTATION DID NOT CHANGE THE FILE"; exit 3; fi
diff -u /repo/$FILE $D/$FILE | sed -n '3,30p'
(cd $D && go build ./... 2>&1 | head -5) | grep . && { echo "DOES NOT BUILD"; exit 3; }
if [ -z "$NOTEST" ]; then
  (cd $D && go test -vet=off -count=1 -timeout 90s ./... 2>&1 | grep -E '^(FAIL|---|panic)' | head -5) | grep . && echo "TESTS FAIL (mutation not admissible)"
fi
for P in $(echo $PROPS | tr , ' '); do
  SBPF_REPO=$D /verif/bin/sbpfcheck -prop $P -tier quick -verif $D/.verif 2>&1 | grep -E '^   (VIOLATED|UNDECIDED)|^== .*exit=' | cut -c1-400
done
