#!/usr/bin/env python3
"""Writes one prompt per property for a fresh seed round: /tmp/wt/<ID>.prompt.md (ID = property + next free letter).
The prompt holds the property's text, the rules of the exercise and one line per seed already filed for that property
("already used - find another mechanism"); nothing about the checks. Prints the new ids. usage: seedprompt.py [C01 C02 ...]"""
import json, os, glob, sys
WORN = ("`binary.NativeEndian`; a raw early `RetConstant` that loses EPERM; a map of pointers into a growing slice; reading "
        "`/proc/self/status`; syscall.E* host constants in non-linux files; sorting the caller's slices in place; a "
        "prctl(PR_SET_SECCOMP) fallback; a process-wide cache of compiled programs; a struct mirror of seccomp_data with uintptr; "
        "case-insensitive operation validation; shared backing arrays of package-level slices; closures or method values capturing "
        "a loop variable under pre-1.22 loop semantics; package-level initialisers that run before init(); `omitempty`; "
        "slices.DeleteFunc and other in-place helpers; sparse errno-to-error tables with nil holes.")
props = {json.loads(l)['id']: json.loads(l) for l in open('/verif/properties.jsonl')}
want = sys.argv[1:] or sorted(props)
os.makedirs('/tmp/wt', exist_ok=True)
ids = []
for p in want:
    letters = sorted(os.path.basename(d)[3] for d in glob.glob('/verif/seeded/%s?' % p))
    sid = p + (chr(ord(letters[-1]) + 1) if letters else 'a')
    ids.append(sid)
    used = []
    for d in sorted(glob.glob('/verif/seeded/%s?' % p)):
        try:
            s = json.load(open(d + '/meta.json')).get('summary', '')
            if s:
                used.append('- ' + s[:260].replace('\n', ' '))
        except Exception:
            pass
    txt = f"""# Task: seed one hidden defect into a Go library (elastic/go-seccomp-bpf)

You work ONLY in the git worktree `/tmp/wt/{sid}` (a checkout of the library; pure Go; builds and tests offline).
Always run Go with: `export GOFLAGS=-mod=mod GOPROXY=off GOSUMDB=off GOTOOLCHAIN=local`. There is no network.
Do not read or touch `/verif` or `/repo`; do not commit anything; do not leave files outside `/tmp/wt/{sid}` and `/tmp/wt/{sid}.out`.
NOTE: `user.Current()` ignores $HOME, the profiler command writes its cache under `/root/.seccomp-profiler` - remove what you create there.
Never install a real seccomp filter in a process you need afterwards (use a child process / `go test` binary if you must load one).

## The property (this is the specification the library promises)

```json
{json.dumps(props[p], indent=1)}
```

## What to produce

A source change to the library (non-test files only) that **breaks this property** while
1. the module still compiles (`go build ./...`, `go vet` need not be clean),
2. the existing test-suite still passes unedited: `go test -vet=off -count=1 ./...`,
3. the defect needs **something specific to manifest** (an unusual input, a particular size, a multi-step sequence, a particular
   architecture / GOOS / byte order, an error or crash at a particular point, a particular interleaving, or two cooperating sites
   that each look fine on their own) - NOT something ordinary use exposes at once,
4. it is **adversarially hidden**: assume a careful reviewer and an automated source analysis that looks hard at the obvious
   functions named in the property's anchors. Present the change as a plausible improvement (refactoring, performance, robustness,
   modernisation, feature). Hide the defect in data, declarations, struct tags, constants, build constraints, init order, aliasing,
   integer width/sign, shadowing, error paths, helper functions far from the anchor, the interaction of two individually correct
   pieces, standard-library corner cases, etc. The diff should be realistic in size (10-120 lines), not a one-token flip.

Ideas that others have ALREADY used for this property - do not repeat these, find a different mechanism:
{chr(10).join(used) if used else '- (none)'}
Also generally worn out, do not use: {WORN}

## Deliver, in `/tmp/wt/{sid}.out/` (create it)

- `patch.diff`  : `git -C /tmp/wt/{sid} diff` of your change (non-test files only; must apply with `git apply` to a clean checkout;
  use `git add -N` for new files so that they show up).
- a demonstration that FAILS with the change and PASSES without it: either `demo_test.go` (a Go test file whose `package` line says which
  package directory it belongs to: package seccomp -> module root, package arch -> arch/, package disasm -> cmd/seccomp-profiler/disasm,
  package main -> write the directory, e.g. `cmd/sandbox`, into a file `demo_dir`; it will be copied there as `zz_seed_demo_linux_test.go`
  and run with `go test -run '^(TestNames)$' .`), or `run.sh` (bash; started from the checkout's root with the checkout's path as `$1`;
  exit 0 = property holds, non-zero = broken). A demo may interpret the produced BPF program with `golang.org/x/net/bpf`'s VM
  (`bpf.NewVM`) or a tiny interpreter of its own rather than loading it into the kernel.
- `meta.json`: {{"id":"{sid}","property":"{p}","summary":"what the change does and why it breaks the property","needs_to_manifest":"...","presented_as":"...","demo_command":"..."}}

Verify all of it yourself: clean checkout + patch -> build ok, existing tests pass, demo fails; without the patch demo passes.
Leave the worktree with the change applied (uncommitted). Your final answer: 5 lines summarising the mechanism.
"""
    open(f'/tmp/wt/{sid}.prompt.md', 'w').write(txt)
print(' '.join(ids))
